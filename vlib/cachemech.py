"""The cache mechanism, shared by C11 and C20 (spec/Cache.tla; see DESIGN.md section 3):
(0) LifeProofs.tla: the lifetime arithmetic of one record (marks ordered, refresh once per mark and never after expiry,
    cache-flush and verify only shorten, a restart puts the record back to the first mark) proved with TLAPS for every
    TTL and instant over the operators of Life.tla that Cache.tla is built from (C11 only);
(a) MCCache.tla: the mechanism model refines the statement-level table Heard.tla that the daemon monitors use
    (NeverLonger, NotEarlier, Present, Reported) and satisfies WellFormed / KeysNeeded / SubsNeeded, exhaustively over
    small histories; three configurations with one pinned behaviour switched back on each must FAIL (the model can
    tell the repaired behaviour from the one that was pinned);
(b) MCCacheCases.tla: 42 240 four-step operation sequences, each checked on the model and replayed on the real
    DnsCache through the verif-hooks facade (driver family 'cachecases', specification -> implementation);
(c) driver family 'cacherand': random operation sequences over a larger vocabulary (implementation -> specification);
both judged operation by operation by TraceCache.tla: results and the complete content of the cache must equal the model's."""
import os
import re

from . import core, daemon

CFGS = ["TraceCache.cfg", "MCCache.cfg", "MCCacheSub.cfg", "MCCacheT.cfg", "MCCacheSubT.cfg", "MCCacheCases.cfg"]
SWITCHES = ("EagerKeys", "SplitByFlush", "KeepSubs")
NEGATIVE = [("MCCacheEager.cfg", "KeysNeeded"), ("MCCacheSplit.cfg", "NotEarlier|NeverLonger"), ("MCCacheKeepSubs.cfg", "SubsNeeded")]


def _switches(cfg):
    text = open(os.path.join(core.SPEC, cfg)).read()
    return tuple(re.search(r"%s\s*=\s*(TRUE|FALSE)" % s, text).group(1) for s in SWITCHES)


def _consistent():
    """Trace validation binds the code to the model with one set of switches; the model-checking runs must be about
    that same model."""
    vals = {c: _switches(c) for c in CFGS}
    if len(set(vals.values())) != 1:
        raise core.ToolError("the cache model is configured differently in %s" % vals)


def _cases(prop):
    r = core.tlc_mc("MCCacheCases", "MCCacheCases.cfg", prop.lower() + "-cachecases-mc", workers=1)
    path = os.path.join(core.workdir(prop.lower()), "cachecases.ndjson")
    n = 0
    with open(path, "w") as f:
        for l in r["prints"]:
            m = re.match(r'<<"CASE", "(.*)">>', l.strip())
            if m:
                f.write(core._unescape_tla(m.group(1)) + "\n")
                n += 1
    r["prints"] = []
    if r["ok"] and n == 0:
        raise core.ToolError("MCCacheCases printed no cases")
    return r, path, n


def step(prop, prefixes, mc_cfgs, v, tier, seed, mc_thorough=(), proofs=False):
    """Runs (a)-(c); returns what run_group merges into its account."""
    _consistent()
    thorough = tier == "thorough"
    mcs = []
    for cfg in (list(mc_thorough) if thorough else []) + mc_cfgs:
        r = core.tlc_mc("MCCache", cfg, "%s-%s" % (prop.lower(), cfg.replace(".cfg", "")), workers=16 if thorough else 8, timeout=3000)
        mcs.append(r)
        if not r["ok"]:
            v.violation(prop + ".model", {"module": "MCCache", "cfg": cfg}, {"tlc_error": r.get("error", "")[:2000], "cmd": r["cmd"]})
    if proofs:
        # the lifetime arithmetic for every TTL and instant: LifeProofs.tla over the operators Cache.tla is built from
        r = core.tlapm("LifeProofs", prop.lower() + "-life")
        mcs.append(r)
        if not r["ok"]:
            v.violation(prop + ".model", {"module": "LifeProofs", "cfg": "tlapm"}, {"tlc_error": r.get("error", "")[:2000], "cmd": r["cmd"]})
    for cfg, inv in NEGATIVE:
        r = core.tlc_mc("MCCache", cfg, "%s-%s" % (prop.lower(), cfg.replace(".cfg", "")), workers=4)
        mcs.append(r)
        if r["ok"] or not re.search(r"Invariant (%s) is violated" % inv, r.get("error", "") + r.get("tail", "")):
            v.violation(prop + ".model", {"module": "MCCache", "cfg": cfg},
                        {"what": "the model with one pinned behaviour switched back on no longer fails %s: it cannot tell the behaviours apart" % inv,
                         "tlc_error": r.get("error", "")[:1500], "cmd": r["cmd"]})
    mc, cases, ncases = _cases(prop)
    mcs.append(mc)
    if not mc["ok"]:
        v.violation(prop + ".model", {"module": "MCCacheCases", "cfg": "MCCacheCases.cfg"}, {"tlc_error": mc.get("error", "")[:2000], "cmd": mc["cmd"]})
    files_all, total, hits = [], 0, set()
    parts = 8 if thorough else 4
    # every case in the thorough tier, every 13th (offset by the seed) on every change
    stride = 1 if thorough else 13
    off = int(seed) % stride
    files, _ = daemon.drive("cachecases", prop, seed, tier, ncases - off, parts, ["--cases", cases, "--stride", stride], "-cases")
    res = daemon.validate("TraceCache", "TraceCache.cfg", files, prop.lower() + "-cachecases")
    tot, h, _ = daemon.collect(prop, prefixes, res, files, v, {"family": "cachecases", "seed": seed, "tier": tier, "stride": stride})
    total += tot
    hits |= h
    files_all += files
    n = 6000 if thorough else 300
    files, _ = daemon.drive("cacherand", prop, seed, tier, n, parts)
    res = daemon.validate("TraceCache", "TraceCache.cfg", files, prop.lower() + "-cacherand")
    tot, h, _ = daemon.collect(prop, prefixes, res, files, v, {"family": "cacherand", "seed": seed, "tier": tier})
    total += tot
    hits |= h
    files_all += files
    return {"mcs": mcs, "files": files_all, "total": total, "hits": hits, "ncases": ncases}


def light(prop, prefixes, v, tier, seed):
    """The random family alone, for the properties that own a few clauses of the cache monitor (C10: known answers,
    C18: what the removal of an interface or of an IP version drops and reports)."""
    _consistent()
    thorough = tier == "thorough"
    n = 3000 if thorough else 300
    files, _ = daemon.drive("cacherand", prop, seed, tier, n, 8 if thorough else 4)
    res = daemon.validate("TraceCache", "TraceCache.cfg", files, prop.lower() + "-cacherand")
    tot, h, _ = daemon.collect(prop, prefixes, res, files, v, {"family": "cacherand", "seed": seed, "tier": tier})
    return {"mcs": [], "files": files, "total": tot, "hits": h}


def replay(prop, prefixes, case, v):
    a = case["args"]
    sid = case["scenario"]["id"]
    out = os.path.join(core.workdir(prop.lower()), "replay.ndjson")
    if a["family"] == "cachecases":
        _, cases, _ = _cases(prop)
        core.harness(["cachecases", "--cases", cases, "--from", sid, "--to", sid, "--out", out, "--seed", a["seed"]])
    else:
        core.harness(["cacherand", "--from", sid, "--to", sid, "--out", out, "--seed", a["seed"], "--tier", a["tier"]])
    res = daemon.validate("TraceCache", "TraceCache.cfg", [out], prop.lower() + "-replay")
    daemon.collect(prop, prefixes, res, [out], v, a)
    return v.finish()


RULE = (" Cache mechanism: MCCache (refinement of Heard.tla by Cache.tla over all histories of <= 3 arrivals of PTR / SRV / address (C20: PTR / "
        "subtype PTR / SRV; thorough: also two SRV and two address records, 32.6 M states) with TTL 0 or 2 s, either flush bit, for us or not, "
        "evictions and verify requests on a 500 ms grid) plus three negative controls "
        "that must fail; family 'cachecases': 42 240 TLC-enumerated four-step sequences (first record, second record of the same or a related set, "
        "one of eviction / verify / four refresh look-ups / removal of the type, final eviction) replayed on the real DnsCache, every 13th on every "
        "change, all in the thorough tier; family 'cacherand': 10-120 random operations per scenario over 3 instances, 2 hosts in up to 3 "
        "spellings, 2 interfaces, TTL palettes from 0 s to 10^6 s, unique records with and without the flush bit.")
ASSUME = ["cache mechanism: the facade (src/verif.rs CacheFacade) calls DnsCache exactly as the daemon does: packets go through the real decoder "
          "and add_or_update in record order, evict = evict_expired_services + evict_expired_addr; record class is always IN; one spelling per "
          "host name when refresh_due_hosts is driven (its answer otherwise depends on hash-set order)"]
