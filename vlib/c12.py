"""C12 The daemon wakes itself for all time-driven work and never spins.
Clauses C12.cover / C12.nospin live in both trace monitors (TraceRespond, TraceBrowse)."""
from . import daemon

PROP = "C12"
PREFIXES = ["C12."]
ASSUME = [
    "the wake-up request is what the daemon passes to its poller, published by the per-iteration gate (src/verif.rs gate_wait); a timer at or before 'now' shows up as a 1 ms request, like the real poll timeout",
    "policy W: on the silent families the daemon is woken only when it asked to be; the due times are derived by the monitors from the API / packet history "
    "(probe steps, second announcement, goodbye repeat, search schedules, refresh marks and expiries of needed records, verify re-query and deadline, "
    "resolver timeout, follow-up retries, interface-check interval); only work whose need the history proves is counted (weak side)",
    "an interface-check interval enlarged at run time is only required to be honoured at the larger of the old and new values",
]
RULE = ("driver family 'silent': register (with / without probing, unregister while probing or later), browse with one announcement then silence "
        "(TTL 2-120 s, goodbye, verify, stop), resolve_hostname with / without timeout, interface-check interval default / huge / 0 at start / 0 at run "
        "time / 0 then 2 s / shortened, horizons 20 s .. 3 h (thorough: 7 h) under policy W; plus the respond, browse, browsew (policy W), resolve and conflict "
        "(lost tiebreaks, renames; each daemon's trace on its own) families (wake-up checked at every park).")


def run(tier, seed, t0):
    fams = [("silent", [], "TraceRespond", "TraceRespond.cfg", 60, 600),
            ("silent", [], "TraceBrowse", "TraceBrowse.cfg", 60, 600),
            ("respond", [], "TraceRespond", "TraceRespond.cfg", 80, 1500),
            ("browse", [], "TraceBrowse", "TraceBrowse.cfg", 40, 800),
            ("resolve", [], "TraceBrowse", "TraceBrowse.cfg", 40, 800),
            ("browsew", [], "TraceBrowse", "TraceBrowse.cfg", 40, 800),
            ("resolvew", [], "TraceBrowse", "TraceBrowse.cfg", 40, 800),
            ("conflict", [], "TraceRespond", "TraceRespond.cfg", 60, 800)]
    return daemon.run_group(PROP, tier, seed, t0, fams, "TraceBrowse", "TraceBrowse.cfg", PREFIXES,
                            [("MCSchedule", "MCSchedule.cfg")], ["C19.schedule", "C07.twice", "C09.repeat", "C11.refresh", "C12.loop-wake", "C12.loop-cover"], ASSUME, RULE)


def replay(path, seed):
    return daemon.replay_group(path, "TraceBrowse", "TraceBrowse.cfg", PREFIXES, PROP)
