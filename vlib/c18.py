"""C18 Each interface is its own link; nothing leaks or outlives its removal.
(a) Interfaces.tla model-checked (MCIface: the declarative reading of "last matching selection wins" against a
    one-pass application, over all topologies of lo / eth0 / wlan0 with IPv4, IPv6 or both and all selection
    sequences of every selector kind); every enumerated (topology, selections) pair is a case that the driver
    family 'ifcases' replays on a real daemon (spec -> implementation);
(b) driver family 'multihome': random interface histories (address added / removed / moved, interface down / up /
    gone, one family vanishing) interleaved with selections, registrations with automatic and explicit addresses,
    a browse against responders on every link and peers asking on every interface;
both judged by the trace monitor TraceIface.tla (implementation -> spec);
(c) component level: what remove_records_on_intf / remove_addrs_on_disabled_intf drop and report, replayed through
    Cache.tla (DropIntf, DropAddrs) by TraceCache.tla over the random cache family (clause C18.cache-purge)."""
import json
import os
import re

from . import cachemech, core, daemon

PROP = "C18"
PREFIXES = ["C18."]
ASSUME = [
    "the daemon learns of a change of the interface table at its next interface check or failed send: for one check interval plus one second after a change "
    "(one second after an enable/disable call) behaviour according to the old or the new table is accepted; obligations (announce a new address, report "
    "removed / resolve again, ask on every enabled interface) fall due at the end of that window",
    "an IP family that leaves an interface which stays is neither 'an interface that disappears' nor 'a disabled family': what becomes of addresses learned "
    "over it is not judged",
    "the simulated kernel sends an IPv4 multicast on the interface that currently holds the address given to IP_MULTICAST_IF, an IPv6 one on the scope index; "
    "datagrams are only delivered on interfaces that the host's table has (up, with an address of that family), also when the daemon has them disabled",
    "no TTL expires within a scenario (PTR 4500 s, others 120 s, scenarios < 60 s): a removal can only come from an interface change",
]
NEED = ["C18.cache-removed", "C18.cache-modified", "C18.cache-dropaddrs-hit", "C18.egress", "C18.where", "C18.addrs", "C18.browse", "C18.family", "C18.ignored", "C18.follow", "C18.purge", "C18.window"]


def _cases():
    r = core.tlc_mc("MCIface", "MCIface.cfg", "c18-mc", workers=1)
    path = os.path.join(core.workdir("c18"), "ifcases.ndjson")
    n = 0
    with open(path, "w") as f:
        for l in r["prints"]:
            m = re.match(r'<<"CASE", "(.*)">>', l.strip())
            if m:
                f.write(core._unescape_tla(m.group(1)) + "\n")
                n += 1
    r["prints"] = []
    return r, path, n


def run(tier, seed, t0):
    v = core.Verdict(PROP)
    thorough = tier == "thorough"
    mcs = []
    mc, cases, ncases = _cases()
    mcs.append(mc)
    if thorough:
        mcs.append(core.tlc_mc("MCIface", "MCIfaceT.cfg", "c18-mct", workers=16))
    for r in mcs:
        if not r["ok"]:
            v.violation("C18.model", {"module": r["module"], "cfg": r["cfg"]}, {"tlc_error": r.get("error", "")[:2000], "cmd": r["cmd"]})
    if ncases == 0:
        raise core.ToolError("MCIface printed no cases")
    total, hits = 0, set()
    all_files = []
    # (a) replay of the enumerated cases: every 40th (offset by seed) on every change, every 3rd in the thorough tier
    stride = 3 if thorough else 40
    off = int(seed) % stride
    parts = 8 if thorough else 4
    files, _ = daemon.drive("ifcases", PROP, seed, tier, ncases - off, parts, ["--cases", cases, "--stride", stride], "-cases")
    res = daemon.validate("TraceIface", "TraceIface.cfg", files, "c18-ifcases")
    tot, h, _ = daemon.collect(PROP, PREFIXES, res, files, v, {"family": "ifcases", "seed": seed, "tier": tier, "stride": stride})
    total += tot
    hits |= h
    all_files += files
    # (b) random histories
    n = 2400 if thorough else 160
    files, _ = daemon.drive("multihome", PROP, seed, tier, n, parts)
    res = daemon.validate("TraceIface", "TraceIface.cfg", files, "c18-multihome")
    tot, h, _ = daemon.collect(PROP, PREFIXES, res, files, v, {"family": "multihome", "seed": seed, "tier": tier})
    total += tot
    hits |= h
    all_files += files
    # (c) the cache operations behind "everything learned on it is dropped", on the component
    x = cachemech.light(PROP, PREFIXES, v, tier, seed)
    total += x["total"]
    hits |= x["hits"]
    all_files += x["files"]
    nscen, nsig = daemon.count_scenarios(all_files)
    vac = [x for x in NEED if x not in hits]
    for x in vac:
        v.note("vacuous: clause tag %s was never exercised by this run" % x)
    cov = {
        "states": sum(x.get("distinct", 0) for x in mcs),
        "transitions": sum(x.get("generated", 0) for x in mcs),
        "traces_validated_against_impl": nscen,
        "samples": daemon.samples_from(all_files[-6:-4]),
        "evaluations": total,
        "distinct_nontrivial": nsig,
        "rule": "(a) MCIface: 47 topologies (lo / eth0 / wlan0, each absent or with IPv4, IPv6 or both) x all sequences of <= 2 (thorough: <= 3) selections over "
                "{enable, disable} x 13 selectors (All, IPv4, IPv6, Name x2, Addr x3 incl. one not on the host, LoopbackV4/6, IndexV4 x2, IndexV6): %d cases; "
                "every %s case is replayed on a real daemon (selections made on the full table, or while all but the first interface are still missing), then a "
                "browse shows where the daemon sends. (b) family 'multihome': one to three interfaces, 1-6 table changes / selections at random instants (some "
                "before the daemon could notice the previous one), one service with automatic and one with explicit addresses, responders on every link, peers "
                "querying on every interface every 1-2 s. (c) family 'cacherand' (see C11): random cache operations including the removal of an interface and of an IP version of an interface. evaluations = trace events validated by TLC; distinct_nontrivial = distinct call/delivery signatures."
                % (ncases, "3rd" if thorough else "40th"),
        "clause_tags_exercised": sorted(hits),
        "vacuous_tags": vac,
        "model_checking": [{k: x.get(k) for k in ("module", "cfg", "generated", "distinct", "depth", "ok", "wall_s")} for x in mcs],
        "checker_cmd": "TRACE=<file> tlc -workers 1 -config TraceIface.cfg TraceIface.tla (per trace file; see vlib/core.py tlc_trace)",
        "exhaustive": False,
    }
    rc = v.finish()
    core.write_evidence(PROP, tier, seed, t0, cov, ASSUME, len(v.violations))
    return rc


def replay(path, seed):
    with open(path) as f:
        rp = json.load(f)
    c = rp["case"]
    v = core.Verdict(PROP)
    a = c["args"]
    sid = c["scenario"]["id"]
    out = os.path.join(core.workdir("c18"), "replay.ndjson")
    if a["family"] in ("cachecases", "cacherand"):
        return cachemech.replay(PROP, PREFIXES, c, v)
    if a["family"] == "ifcases":
        _, cases, _ = _cases()
        core.harness(["ifcases", "--cases", cases, "--from", sid, "--to", sid, "--out", out, "--seed", a["seed"]])
    else:
        core.harness(["multihome", "--from", sid, "--to", sid, "--out", out, "--seed", a["seed"], "--tier", a["tier"]])
    res = daemon.validate("TraceIface", "TraceIface.cfg", [out], "c18-replay")
    daemon.collect(PROP, PREFIXES, res, [out], v, a)
    return v.finish()
