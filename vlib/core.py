"""Shared plumbing of the checks: build, TLC runs, trace validation,
verdicts, known findings, evidence files."""
import hashlib
import json
import os
import re
import subprocess
import sys
import time

ROOT = os.path.dirname(os.path.dirname(os.path.abspath(__file__)))
SPEC = os.path.join(ROOT, "spec")
WORK = os.path.join(ROOT, "work")
HARNESS = os.path.join(ROOT, "harness")
BIN = os.path.join(HARNESS, "target", "release", "mdns-verif-harness")
EVID = os.path.join(ROOT, "evidence")
REPLAYS = os.path.join(ROOT, "replays")
KNOWN = os.path.join(ROOT, "known_findings.json")


class ToolError(Exception):
    pass


def log(*a):
    print(*a, flush=True)


def sh(cmd, cwd=None, env=None, timeout=None):
    e = dict(os.environ)
    if env:
        e.update(env)
    try:
        p = subprocess.run(cmd, cwd=cwd, env=e, timeout=timeout, stdout=subprocess.PIPE,
                           stderr=subprocess.STDOUT, text=True, errors="replace")
    except subprocess.TimeoutExpired as ex:
        raise ToolError("timeout: %s" % (cmd,)) from ex
    return p.returncode, p.stdout


def build_harness():
    """Rebuilds the harness, and with it /repo from its current working tree
    with the verif-hooks feature on."""
    os.makedirs(WORK, exist_ok=True)
    t = time.time()
    rc, out = sh(["cargo", "build", "--release", "--offline"], cwd=HARNESS,
                 env={"CARGO_NET_OFFLINE": "true"}, timeout=1800)
    if rc != 0:
        sys.stdout.write(out[-6000:])
        raise ToolError("harness build failed (does /repo still compile with --features verif-hooks?)")
    log("[build] harness ok in %.1fs" % (time.time() - t))
    return BIN


def harness(args, timeout=3600):
    rc, out = sh([BIN] + [str(a) for a in args], cwd=HARNESS, timeout=timeout)
    if rc != 0:
        sys.stdout.write(out[-4000:])
        raise ToolError("harness %s failed rc=%s" % (args[:1], rc))
    last = [l for l in out.strip().split("\n") if l.startswith("{")]
    return json.loads(last[-1]) if last else {}


_TLC_ENV = {"JAVA_TOOL_OPTIONS": "-Xss1g -Xmx3g -Dtlc2.tool.queue.IStateQueue=StateDeque"}


def workdir(*parts):
    d = os.path.join(WORK, *parts)
    os.makedirs(d, exist_ok=True)
    return d


def tlc_mc(module, cfg, tag, workers=4, timeout=1500, simulate=None, extra=None, coverage=False):
    """Model-checks spec/<module>.tla with spec/<cfg>. Returns a dict with
    ok, generated, distinct, depth, error (first error text) and raw tail."""
    meta = workdir("tlc", tag)
    cmd = ["timeout", str(timeout), "tlc", "-workers", str(workers), "-metadir", meta, "-cleanup",
           "-noGenerateSpecTE", "-config", cfg]
    if coverage:
        cmd += ["-coverage", "1"]
    if simulate:
        cmd += ["-simulate", simulate]
    if extra:
        cmd += extra
    cmd += [module + ".tla"]
    t = time.time()
    rc, out = sh(cmd, cwd=SPEC, env={"JAVA_TOOL_OPTIONS": "-Xss512m -Xmx12g"}, timeout=timeout + 60)
    res = {"module": module, "cfg": cfg, "rc": rc, "wall_s": round(time.time() - t, 1),
           "cmd": " ".join(cmd)}
    m = re.search(r"(\d[\d,]*) states generated, (\d[\d,]*) distinct states found", out)
    if m:
        res["generated"] = int(m.group(1).replace(",", ""))
        res["distinct"] = int(m.group(2).replace(",", ""))
    m = re.search(r"depth of the complete state graph search is (\d+)", out)
    if m:
        res["depth"] = int(m.group(1))
    res["ok"] = ("Model checking completed. No error has been found." in out) or \
                (simulate is not None and rc in (0, 124) and "Error:" not in out)
    if ("TLC threw an unexpected exception" in out or "Parsing or semantic analysis failed" in out
            or "was a Java StackOverflowError" in out or "java.lang.OutOfMemoryError" in out):
        sys.stdout.write(out[-3000:])
        raise ToolError("tlc could not evaluate %s/%s (spec or tool error, not a verdict)" % (module, cfg))
    if rc == 124 and simulate is None:
        raise ToolError("tlc timed out on %s/%s" % (module, cfg))
    if not res["ok"]:
        m = re.search(r"Error: (.*?)(?:\n\n|\Z)", out, re.S)
        res["error"] = (m.group(1) if m else out[-1500:])[:3000]
        if rc == 124:
            res["timeout"] = True
    res["prints"] = [l for l in out.split("\n") if l.startswith('<<"')]
    res["tail"] = out[-3000:]
    if rc not in (0, 12, 13, 124) and "generated" not in res:
        sys.stdout.write(out[-3000:])
        raise ToolError("tlc failed on %s/%s rc=%s" % (module, cfg, rc))
    return res


def tlapm(module, tag, timeout=900):
    """Checks the proofs of spec/<module>.tla with the TLA+ proof system (SMT / Zenon / Isabelle back ends), from scratch.
    Returns ok, obligations, failed."""
    cache = workdir("tlaps", tag)
    cmd = ["timeout", str(timeout), "tlapm", "--threads", "8", "--cleanfp", "--nofp", "--cache-dir", cache, "--toolbox", "0", "0", module + ".tla"]
    t = time.time()
    rc, out = sh(cmd, cwd=SPEC, timeout=timeout + 60)
    res = {"module": module, "cfg": "tlapm", "rc": rc, "wall_s": round(time.time() - t, 1), "cmd": " ".join(cmd)}
    m = re.search(r"All (\d+) obligations? proved", out)
    f = re.search(r"(\d+)/(\d+) obligations? failed", out)
    if m:
        res.update(ok=True, obligations=int(m.group(1)), failed=0, generated=int(m.group(1)), distinct=int(m.group(1)))
    elif f:
        res.update(ok=False, obligations=int(f.group(2)), failed=int(f.group(1)), generated=int(f.group(2)), distinct=int(f.group(2)),
                   error="%s of %s proof obligations failed\n%s" % (f.group(1), f.group(2), out[-1500:]))
    else:
        sys.stdout.write(out[-3000:])
        raise ToolError("tlapm gave no verdict on %s (rc=%s)" % (module, rc))
    return res


def _unescape_tla(s):
    # TLC prints strings with \" and \\ escapes
    return re.sub(r'\\(.)', lambda m: {"n": "\n", "t": "\t"}.get(m.group(1), m.group(1)), s)


def tlc_trace(module, cfg, trace, tag, timeout=1500, env=None):
    """Validates an NDJSON trace against spec/<module>.tla. Returns the RESULT
    record printed by the postcondition: consumed, total, viol, ..."""
    meta = workdir("tlc", tag)
    cmd = ["timeout", str(timeout), "tlc", "-workers", "1", "-metadir", meta, "-cleanup",
           "-noGenerateSpecTE", "-config", cfg, module + ".tla"]
    e = dict(_TLC_ENV)
    e["TRACE"] = trace
    if env:
        e.update(env)
    t = time.time()
    rc, out = sh(cmd, cwd=SPEC, env=e, timeout=timeout + 60)
    m = re.search(r'<<"RESULT", "(.*)">>', out)
    if not m:
        sys.stdout.write(out[-4000:])
        raise ToolError("no RESULT from %s on %s (rc=%s)" % (module, trace, rc))
    r = json.loads(_unescape_tla(m.group(1)))
    r["wall_s"] = round(time.time() - t, 1)
    r["cmd"] = "TRACE=%s %s" % (trace, " ".join(cmd))
    if r["consumed"] != r["total"]:
        # a line no action of the trace spec matches: malformed trace = tool error
        raise ToolError("%s consumed %s of %s lines of %s" % (module, r["consumed"], r["total"], trace))
    return r


# --------------------------------------------------------------------------
# known findings, verdicts
# --------------------------------------------------------------------------

def load_known():
    if not os.path.exists(KNOWN):
        return []
    with open(KNOWN) as f:
        d = json.load(f)
    return d.get("findings", [])


def match_known(prop, tag, disc, known):
    """disc: dict of discriminating fields of the failing case. A finding
    matches if property and tag are equal and every key of its `match` has the
    same value in disc (regex allowed with prefix 're:')."""
    for k in known:
        if k.get("property") != prop or k.get("tag") != tag:
            continue
        ok = True
        for key, want in k.get("match", {}).items():
            have = disc.get(key)
            if isinstance(want, str) and want.startswith("re:"):
                if have is None or not re.search(want[3:], str(have)):
                    ok = False
            elif have != want:
                ok = False
        if ok:
            return k
    return None


def write_replay(prop, payload):
    d = os.path.join(REPLAYS, prop)
    os.makedirs(d, exist_ok=True)
    blob = json.dumps(payload, sort_keys=True)
    h = hashlib.sha1(blob.encode()).hexdigest()[:12]
    p = os.path.join(d, "%s.json" % h)
    with open(p, "w") as f:
        f.write(json.dumps(payload, indent=1, sort_keys=True))
    return p


class Verdict:
    def __init__(self, prop):
        self.prop = prop
        self.known = load_known()
        self.violations = []   # (tag, disc, payload)
        self.known_hits = {}   # finding what -> count
        self.notes = []

    def violation(self, tag, disc, payload):
        k = match_known(self.prop, tag, disc, self.known)
        if k is not None:
            self.known_hits[k["what"]] = self.known_hits.get(k["what"], 0) + 1
            return
        self.violations.append((tag, disc, payload))

    def note(self, s):
        self.notes.append(s)
        log("NOTE " + s)

    def finish(self):
        for what, n in sorted(self.known_hits.items()):
            log("KNOWN-FINDING: property=%s %s (seen %d time(s))" % (self.prop, what, n))
        seen = set()
        for tag, disc, payload in self.violations:
            key = (tag, json.dumps(disc, sort_keys=True))
            if key in seen:
                continue
            seen.add(key)
            if len(seen) > 12:
                break
            p = write_replay(self.prop, {"property": self.prop, "tag": tag, "disc": disc, "case": payload})
            log("VIOLATION property=%s replay=%s" % (self.prop, p))
            log("  clause %s  %s" % (tag, json.dumps(disc, sort_keys=True)[:400]))
        return 1 if self.violations else 0


def write_evidence(prop, tier, seed, t0, coverage, assumptions, violations, level="model_checking"):
    os.makedirs(EVID, exist_ok=True)
    ev = {
        "property_id": prop,
        "tier": tier,
        "seed": int(seed),
        "level": level,
        "coverage": coverage,
        "assumptions": assumptions,
        "wall_s": round(time.time() - t0, 1),
        "violations": int(violations),
    }
    with open(os.path.join(EVID, "%s.json" % prop), "w") as f:
        json.dump(ev, f, indent=1, sort_keys=True)
    return ev


def read_ndjson(path):
    with open(path) as f:
        return [json.loads(l) for l in f if l.strip()]
