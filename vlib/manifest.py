"""Generates /verif/MANIFEST.json from one table, so it stays valid."""
import json
import os
import subprocess

ROOT = os.path.dirname(os.path.dirname(os.path.abspath(__file__)))

CHECKS = {}      # id -> dict(level_text, note, technique, design_ref)
NOT_APPLICABLE = {}

def check(pid, text, note, technique, ref):
    CHECKS[pid] = dict(text=text, note=note, technique=technique, ref=ref)

check("C01",
      "TLC exhaustively checks the TLA+ transcription of the decoder (DecodeMech: read_name as a step machine, RDATA readers "
      "with every index guarded) for termination, index safety and name-length bound over all small byte strings; the real "
      "decoder is then run on enumerated + TLC-enumerated (every structure of compression pointers among K slots, every RDLENGTH claim x RDATA "
      "string per record type) + random + mutated + grammar-built datagrams in watchdogged child processes and every "
      "outcome is validated by TLC against the RFC 1035 oracle (Wire!ParseMsg) and against the transcription (drift).",
      "Trusts TLC, the facade (no logic), and the harness's watchdog; time/memory proportionality is observed (wall clock with a generous "
      "constant; peak heap use of every decode call counted by the harness's allocator and bounded by 64 bytes per datagram byte + 8 KB), not proved; exploration of 0..9000-byte inputs is sampled, small strings are exhaustive.",
      "TLA+ mechanism model checked by TLC + trace validation of real decode calls against a TLA+ wire-format oracle",
      "DESIGN.md section 7 C01")

check("C02",
      "TLC validates the RFC 1035 oracle (Wire!ParseMsg) against a reference encoder over an enumerated message space and emits "
      "those messages as cases; the crate's encoder is run on them and on seeded random / large / roll-back / oversize messages; "
      "TLC then checks every emitted packet: size, well-formedness (counts, strict backward pointers, no trailing bytes), that the "
      "records read back are an order-preserving sub-list of the records added with identical names/TTL bytes/RDATA, TC on "
      "continuation, and that the crate's own decoder reads the same content.",
      "Trusts TLC and the facade's record constructors; names are handed to the encoder as escaped strings of the intended "
      "labels; sampled exploration beyond the enumerated small scope.",
      "TLA+ wire-format oracle validated by TLC + trace validation of real encoder output, TLC-enumerated messages replayed into the encoder",
      "DESIGN.md section 7 C02")

check("C16",
      "TLC checks the TXT model (Txt.tla: Accept, EncodeTxt, DecodeTxt, first-key-wins, case-insensitive lookup) exhaustively over a "
      "key/value pool with a scaled length limit, proving the round-trip, chunk-bound and totality theorems on the model; the enumerated "
      "lists are replayed through every input type of ServiceInfo::new and, with seeded random lists around the real 255-byte limit and "
      "enumerated + random byte strings into the decoder, every result (acceptance, RDATA bytes, browser-side decode, lookups) is "
      "validated by TLC against the same operators.",
      "Trusts TLC and the facade (generate_txt / decode_txt pass-throughs); ASCII-only case folding in the spec; the end-to-end leg "
      "(registering daemon -> browsing daemon) is validated in the daemon-level browse traces.",
      "TLA+ functional model checked by TLC + TLC-generated cases replayed into ServiceInfo::new + trace validation",
      "DESIGN.md section 7 C16")

RESP_NOTE = ("Trusts TLC, the simulation layer as a faithful stand-in for the kernel/socket behaviour the property observes, the harness's "
             "independent packet reader and its mechanical projections (lower-casing, canonical rdata strings). Explored histories are "
             "sampled (seeded), not exhaustive; the declarative reading of the operators is model-checked on a small instance (MCResponder).")
RESP_TECH = "trace validation of the real daemon (simulated network, virtual time) by a TLC monitor over an explicit TLA+ responder spec; operators model-checked"

check("C06",
      "The real daemon runs in the simulation layer; every loop iteration's packets are judged by the TLC monitor TraceRespond against "
      "Responder.tla: for each injected query the answer set must equal what the registered, announced services on that link owe "
      "(values of the latest register, TTL 120/4500, cache-flush bits, in-subnet addresses, additionals of PTR answers), nothing for "
      "unknown / unregistered / probing / off-link services, legacy queries answered by one unicast datagram with id and question "
      "echoed and flush bits cleared. The answer operators are model-checked (MCResponder: OnlyAnnounced, NoLeak, MustSubMay).",
      RESP_NOTE, RESP_TECH, "DESIGN.md section 7 C06")
check("C07",
      "Same monitor: no announcement of a probing service before three probes 250 ms apart were seen on that interface plus 250 ms, "
      "probe content (ANY questions, proposed records in the authority section), announcement content, second announcement one second "
      "later, bounded time to the first announcement on a silent link and on an interface that appears later; no answer for a name that is still "
      "being probed (C07.early-answer); all start jitters arise from seeded runs.",
      RESP_NOTE + " The mechanism model of probing (ProbeMech) is checked under C08.", RESP_TECH, "DESIGN.md section 7 C07")
check("C09",
      "Same monitor: unregister replies OK iff the lower-cased name is registered; on OK / shutdown one multicast goodbye per interface "
      "and family where the service was announced, with PTR (+subtype), SRV, TXT, in-subnet addresses at TTL 0, repeated once 120 ms "
      "later on the same interface; no goodbye that is not owed; no announcement or answer afterwards; also after conflict renames (family conflict: "
      "goodbyes under the names in use).",
      RESP_NOTE, RESP_TECH, "DESIGN.md section 7 C09")
check("C10",
      "Same monitor, responder side: an answer (and the additionals it alone brings) must be omitted when the query lists the same "
      "record with TTL above half, must be kept below half or when the record differs, either at exactly half; HalfRule is "
      "model-checked on MCResponder. Querier side (known answers in the daemon's own queries) is judged by the browse monitor.",
      RESP_NOTE, RESP_TECH, "DESIGN.md section 7 C10")

Q_NOTE = ("Trusts TLC, the simulation layer, the harness's independent packet reader and mechanical projections. Histories are seeded samples; "
          "the ground-truth table (Heard.tla) is model-checked against a declarative reading of the statements over the raw delivery log "
          "(MCHeard), the query schedule automaton against the closed-form schedule (MCSchedule). Weak readings are listed in the evidence file.")
Q_TECH = "trace validation of the real daemon (simulated network, virtual time, scripted responders) by a TLC monitor over an explicit TLA+ ground-truth spec; spec model-checked"

check("C03", "Every ServiceResolved of every iteration is judged by the TLC monitor TraceBrowse against the ground truth Heard.tla built from the "
      "delivered packets: host/port from a live SRV of the instance, each address from a live A/AAAA of that host heard on exactly the tagged "
      "interfaces, TXT from a live TXT record, a live PTR of the browsed type, never from expired / withdrawn / flush-displaced records; "
      "Heard's incremental rules are model-checked (LiveOnlyWithinTtl, LatestGoverns, GoodbyeWithdraws, FlushRule).", Q_NOTE, Q_TECH, "DESIGN.md section 7 C03")
check("C04", "Same monitor: whenever the daemon parks, every instance whose PTR, SRV, TXT and an address arrived (in any split / order / with duplicates and "
      "foreign records) in packets that were for it and are live must have been reported ServiceFound and ServiceResolved (and a TXT that arrives last is carried by a ServiceResolved of that iteration: C04.resolve-txt); unresolved instances get "
      "at most three follow-up queries 500 ms apart, and it must ask: first for the SRV / TXT of a found instance, then for the addresses of its host, "
      "within a second (C04.ask); the daemon's own questions must carry the labels of the received names.", Q_NOTE, Q_TECH, "DESIGN.md section 7 C04")
check("C05", "Same monitor: whenever the daemon parks, every reported instance still has a live PTR (and every resolved one a live SRV and address) - "
      "i.e. expiry, goodbye + 1 s and verify deadlines produce ServiceRemoved in the iteration at the due time; ServiceRemoved is never sent while PTR, "
      "SRV and an address are live for more than a second, never before the deadline of a verify request (exact in iterations without arrivals), "
      "not later than 1.5 s after the instance was gone (also under policy W: family browsew); no ServiceResolved after removal without newer records.", Q_NOTE, Q_TECH, "DESIGN.md section 7 C05")
check("C11", "Same monitor: every refresh query must be explained by an unused 80/85/90/95 % mark of a live record (once per mark, never after expiry, "
      "marks restart on a fresh copy); a needed record whose mark fell due since the last iteration must be asked for; the cache-flush one-second "
      "rule and TTL-0-means-one-second are part of Heard.tla (model-checked: FlushRule, GoodbyeWithdraws) and are exercised through C03/C05 clauses and "
      "C11.ttl (no address is held beyond its TTL or more than a second after a cache-flush displaced it); families browse, resolve and browsew (policy W). "
      "Component level: Cache.tla models DnsCache and the DnsRecord lifetime arithmetic operation by operation; MCCache proves that it refines Heard.tla "
      "(a record never outlives, nor is cut short of, the lifetime the statements give it; goodbye, cache-flush, verify) with three negative controls; "
      "26 880 TLC-enumerated operation sequences and random ones are replayed on the real cache and TraceCache.tla compares every result and the "
      "complete content (TTL, creation, expiry, refresh mark of every record) after every operation. LifeProofs.tla: the lifetime arithmetic "
      "(marks ordered, once per mark, never after expiry, flush and verify only shorten, restart at the first mark) proved with TLAPS for every TTL "
      "and instant over the operators Cache.tla is built from.",
      Q_NOTE, Q_TECH, "DESIGN.md section 7 C11")
check("C13", "Same monitor: per-channel protocol automaton (first event SearchStarted, ServiceFound before ServiceResolved, exactly the owed SearchStopped "
      "in the iteration of stop / timeout / shutdown and nothing after it, cache-only browse never queries), no query for a stopped type or host "
      "(falls out of C19.explained), PTRs of a stopped browse forgotten (no replay); at component level what remove_service_type drops (PTRs, the "
      "instances' SRV / TXT, their hosts' addresses in any spelling) is replayed through Cache!Forget by TraceCache (C13.cache-forget).", Q_NOTE, Q_TECH, "DESIGN.md section 7 C13")
check("C17", "Same monitor over driver family 'resolve': AddressesFound only for live addresses received for that host (case-insensitive) on the tagged "
      "interface, every such address reported, AddressesRemoved exactly when the record expired or was withdrawn, A+AAAA asked together on the "
      "doubling schedule, 80 % refresh (owed, and no address runs out without it ever having been sent: also under policy W, family resolvew), "
      "SearchTimeout then SearchStopped at the deadline and nothing on the channel afterwards (C17.final).", Q_NOTE, Q_TECH, "DESIGN.md section 7 C17")
check("C19", "Same monitor: every question the daemon asks must be explained by the doubling schedule of an open search (1, 2, 4 .. s capped at 3600 s; "
      "browsing again replaces the schedule), a refresh mark, one of <= 3 follow-ups, or a verify; a due schedule slot must be used; the same "
      "question is not asked more often than explained; families browse, resolve and silent (horizons of hours, up to the one-hour cap). The schedule "
      "automaton is model-checked against the closed form (MCSchedule). Mechanism level: the re-runs the loop has queued when it parks (hook) must be "
      "one chain per search and per unresolved instance (C19.loop-one), due exactly at the next slot of the schedule with the doubled, capped delay "
      "(C19.loop-sched).",
      Q_NOTE, Q_TECH, "DESIGN.md section 7 C19")
check("C20", "Same monitor over driver families 'flood' and 'browse': every get_metrics reply is compared with the ground truth: cached-ptr/srv/txt/addr <= "
      "records received and still alive, timers proportional to live records and searches (strict clause: known finding; weaker 'popped' clause "
      "enforced), nothing kept of names of which nothing ever arrived in a packet for this daemon (C20.unrequested), and zero records / <= 1 timer once "
      "every TTL has passed and all searches have been stopped for five seconds. Component level (Cache.tla / TraceCache.tla, as for C11): the keys "
      "of the cache's five maps and the subtype table must be the model's after every operation, no map entry without records (KeysNeeded), no "
      "subtype entry without its subtype PTR (SubsNeeded); both model-checked, with negative controls.", Q_NOTE, Q_TECH, "DESIGN.md section 7 C20")

check("C12", "Both trace monitors derive from the API / packet history the set of pending time-driven work and its due times and require, at every park "
      "of the real daemon, that the wake-up it asks its poller for is not later than the earliest of them (C12.cover), and that it never runs 30 idle "
      "iterations in a row each asking to be woken within 1 ms (C12.nospin); exercised under policy W (woken only when it asks) on the 'silent' family "
      "over horizons up to hours and with every interface-check setting, and at every park of the respond, browse, browsew, resolve, resolvew and conflict "
      "families (the latter: within a second of a competing probe, won or lost). Mechanism level: the loop publishes its timer heap and queued "
      "re-runs when it parks (hook); the wake-up must be exactly the earliest timer (C12.loop-wake) and every queued re-run must have a timer of "
      "its own (C12.loop-cover).",
      Q_NOTE + " Work the daemon forgets to do even when woken is reported by the property that owns that work.", Q_TECH, "DESIGN.md section 7 C12")

check("C08", "Three legs. (a) Compare.tla (class, type, RDATA, count) is model-checked for opposite verdicts and every enumerated pair of record lists is "
      "replayed through the crate's Probe::tiebreaking from both sides; name_change / hostname_change are replayed against the renaming rule and "
      "encodability. (b) Two or three real daemons in one simulated world (and single daemons with injected conflicts / competing probes at every "
      "probe step) run under virtual time; each daemon's trace is judged by TraceRespond, which reads the names in use off the wire and then requires "
      "every later probe, announcement, answer, additional and goodbye to use them (plus no-take after a conflict, back-off then three fresh probes, "
      "NameChange events, and after a competing probe built to win the comparison no probe for a second: C08.backoff); (c) the combined trace is judged by TraceConflict: all announced, exactly one holds the original names, no shared name.",
      RESP_NOTE + " (d) ProbeMech.tla, a mechanism-level model of probing / tiebreak / back-off / rename / defence for 2-3 daemons on one link, is "
      "model-checked (no shared name, three probes before an announcement, one winner, everybody announced - liveness; without the tiebreak it must "
      "fail) and its 810 start-time vectors are replayed on real daemons (family probecases); the names the daemons end up with must be one of the "
      "outcomes the model can settle in for those start times (MCProbeOutcomes -> TraceConflict clause C08.outcome-model).", RESP_TECH + "; TLC-enumerated cases replayed into the comparison code",
      "DESIGN.md section 7 C08")

check("C18", "Interfaces.tla states which addresses of the host's table a daemon uses (selections in call order, last match wins, evaluated over whatever "
      "the table holds); MCIface model-checks that reading against a one-pass application over all small topologies and selection sequences of every "
      "selector kind and prints every (topology, selections) pair, which the driver replays on a real daemon. The driver family 'multihome' changes the "
      "simulated interface table under a real daemon (address added / removed / moved, interface down / up / gone, family vanishing) interleaved with "
      "selections, registrations (automatic and explicit addresses), a browse and traffic on every link. The TLC monitor TraceIface judges every packet "
      "and event: egress only on enabled interface/family pairs, records of a service only where it has an address in the subnet and only with the "
      "addresses of that link, a new browse asks on every enabled pair, new addresses are announced by services with automatic addressing, instances "
      "whose PTR was learned on a vanished interface are reported removed, others resolved again without what was learned there, no address reported "
      "for a disabled or vanished interface/family, nothing reported that only ever arrived on a disabled one.",
      RESP_NOTE + " Between a change of the table and the daemon's next interface check both views are accepted (window); timing of the check itself is "
      "C12's business.", RESP_TECH + "; TLC-enumerated (topology, selections) cases replayed into the real daemon", "DESIGN.md section 7 C18")

check("C14", "Lifecycle.tla models the handles and the daemon thread with one step function per atomic step of the code (try_send, try_recv + execution, "
      "clean-up, drain of the queue, drop of the receiver, Shutdown reply, drop of the daemon state). MCLifecycle checks every interleaving of calls of every "
      "kind with those steps: clean-up exactly once, everything withdrawn (on every interface and IP version it was announced on) / every search stopped before Shutdown is reported, one Shutdown reply, every call "
      "after a received Shutdown fails with DaemonShutdown (status(): Shutdown), search-channel protocol, nobody left waiting (NoDangling), Exit always "
      "served (liveness). MCLifeCases enumerates every schedule (commands of every kind around an Exit, every cut into loop iterations); the driver replays "
      "them on a real daemon through the gate (also holding the daemon between its last look at the queue and the drop of the receiver) and TraceLifecycle "
      "runs the same step functions over the trace, comparing after every line the reply channels, events, closed channels and thread liveness with the "
      "model state. Real client threads against a free-running daemon are judged by TraceThreads on the order-insensitive reading of the same properties.",
      RESP_NOTE + " The interleaving of a call with the inside of a loop iteration is covered by the model and sampled by the real-thread runs, not replayed "
      "deterministically, except for the exit window (hook).",
      "explicit TLA+ life-cycle spec model-checked by TLC (safety + liveness); TLC-enumerated schedules replayed into the real daemon and validated by a trace spec "
      "that reuses the spec's step functions; real-thread histories validated by a TLC monitor", "DESIGN.md section 7 C14")

check("C15", "ApiGuard.tla states the argument space of the public functions by shape (label lengths around every limit, fillings with every awkward kind of "
      "character at every position class, right / missing / doubled / wrong suffixes); TLC enumerates it and every case is replayed on a real daemon in the "
      "simulation, followed by enough virtual time for the deferred work (probing, a conflict rename, announcing, queries, follow-ups) and a liveness probe. "
      "A second driver sends random, mutated, truncated and well-formed-but-awkward datagrams (63-byte labels, trailing backslashes, dots and non-UTF-8 bytes "
      "inside labels, 255-byte names, conflicts for own names at the label limit) to a daemon with an open browse, resolver and registration. The TLC monitor "
      "TraceGuard requires of every trace: no panic in a calling thread, the daemon thread neither ends nor gets stuck, and it still answers status() with "
      "Running and a fresh browse with SearchStarted at the end.",
      RESP_NOTE + " The model's content here is the enumeration of the input space; the oracle is the robustness statement itself.",
      "TLC-enumerated argument shapes replayed into the real API and daemon; trace validation of the recorded runs (and of hostile-datagram runs) by a TLC monitor",
      "DESIGN.md section 7 C15")

def hooks_commits():
    try:
        out = subprocess.run(["git", "-C", "/repo", "log", "--format=%h %s"], stdout=subprocess.PIPE, text=True).stdout
        return [l.split()[0] for l in out.splitlines() if "verif-hooks" in l][::-1]
    except Exception:
        return []

def generate():
    props = [json.loads(l)["id"] for l in open(os.path.join(ROOT, "properties.jsonl"))]
    checks = []
    for pid in props:
        if pid not in CHECKS:
            continue
        c = CHECKS[pid]
        checks.append({
            "property_id": pid,
            "quick_cmd": "./check %s --tier quick" % pid,
            "thorough_cmd": "./check %s --tier thorough" % pid,
            "evidence_file": "/verif/evidence/%s.json" % pid,
            "replay_cmd_template": "./check %s --replay {path}" % pid,
            "engine": "tla-trace",
            "level_claimed": {"category": "model_checking", "text": c["text"], "design_ref": c["ref"]},
            "level_note": c["note"],
            "technique": c["technique"],
        })
    na = [{"property_id": p, "reason": NOT_APPLICABLE.get(p, "check not built yet in this round; planned per DESIGN.md section 7 (same technique)")}
          for p in props if p not in CHECKS]
    m = {
        "version": 1,
        "setup_cmd": "cd /verif/harness && CARGO_NET_OFFLINE=true cargo build --release --offline",
        "hooks": {
            "guard": "verif-hooks",
            "enable": "cargo feature `verif-hooks` of mdns-sd, switched on by the harness's path dependency "
                      "(harness/Cargo.toml: mdns-sd = { path = \"/repo\", features = [\"verif-hooks\"] })",
            "baseline_off_cmd": "cd /repo && cargo test --workspace --no-fail-fast --offline",
            "source_commits": hooks_commits(),
            "add_only": True,
        },
        "engines": [
            {"name": "tla-trace", "path": "/verif/check", "serves_properties": sorted(CHECKS),
             "kind_free_text": "explicit TLA+ specifications (spec/*.tla) model-checked by TLC, bound to the implementation by "
                               "TLC trace validation of executions of the real code recorded by a Rust harness "
                               "(harness/, simulation layer src/verif.rs) and by replay of TLC-generated cases; one module "
                               "(spec/LifeProofs.tla, C11) is proved with the TLA+ proof system (tlapm) for unbounded TTLs"},
        ],
        "checks": checks,
        "not_applicable": na,
        "notes": "See DESIGN.md. known_findings.json lists recorded defects and fixed: entries.",
    }
    with open(os.path.join(ROOT, "MANIFEST.json"), "w") as f:
        json.dump(m, f, indent=1)
    return m

if __name__ == "__main__":
    m = generate()
    print("checks:", [c["property_id"] for c in m["checks"]], "n/a:", len(m["not_applicable"]))
