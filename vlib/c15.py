"""C15 No API argument and no packet can crash a caller or kill the daemon.
(a) ApiGuard.tla states the argument space of the public functions by shape; MCApiGuard enumerates it (function x label
    lengths 0..300 x fillings x suffixes) and the driver family 'apiguard' replays every case on a real daemon, lets the
    deferred work run (with a conflict injected so that registered names grow their suffix) and probes that the daemon
    still serves;
(b) driver family 'hostile': random, mutated, truncated and well-formed-but-awkward datagrams to a daemon with an open
    browse, an open resolver and a registered service with names at the length limits;
both judged by the trace monitor TraceGuard.tla (no panic in a caller, daemon thread alive and not stuck, still serving)."""
import json
import os
import re

from . import core, daemon

PROP = "C15"
PREFIXES = ["C15."]
ASSUME = [
    "a panic is observed with catch_unwind around every call made by the harness and by the drop guard of the daemon thread (verif-hooks); "
    "an iteration that does not come back within 20 s of real time counts as stuck",
    "'goes on serving' is probed at the end of every scenario: status() must answer Running and a fresh browse must get SearchStarted",
    "the argument space is explored by shape (ApiGuard.tla): label lengths {0,1,2,15,16,62,63,64,65,200,255,300} x 14 fillings (ASCII, underscore, upper case, digits, "
    "dashes, space, NUL, backslash inside / at the end, escaped dot, 2/3/4-byte UTF-8 at the start / middle / end) x 9 suffixes, one or two labels; "
    "numbers, address strings and TXT property sets of odd kinds are drawn by seed",
    "what the daemon does with an unrepresentable name (refuse, ignore, cut) is not judged here, only that nobody crashes",
]
NEED = ["C15.call", "C15.refused", "C15.accepted", "C15.datagram", "C15.malformed", "C15.renamed", "C15.probe"]


def _cases():
    r = core.tlc_mc("MCApiGuard", "MCApiGuard.cfg", "c15-cases", workers=1)
    path = os.path.join(core.workdir("c15"), "apicases.ndjson")
    n = 0
    with open(path, "w") as f:
        for l in r["prints"]:
            m = re.match(r'<<"CASE", "(.*)">>', l.strip())
            if m:
                f.write(core._unescape_tla(m.group(1)) + "\n")
                n += 1
    r["prints"] = []
    return r, path, n


def run(tier, seed, t0):
    v = core.Verdict(PROP)
    thorough = tier == "thorough"
    mc, cases, ncases = _cases()
    if not mc["ok"]:
        v.violation("C15.model", {"module": "MCApiGuard"}, {"tlc_error": mc.get("error", "")[:2000], "cmd": mc["cmd"]})
    if ncases == 0:
        raise core.ToolError("MCApiGuard printed no cases")
    total, hits, all_files = 0, set(), []
    parts = 8 if thorough else 4
    stride = 1 if thorough else 16
    off = int(seed) % stride
    files, _ = daemon.drive("apiguard", PROP, seed, tier, ncases - off, parts, ["--cases", cases, "--stride", stride], "-cases")
    res = daemon.validate("TraceGuard", "TraceGuard.cfg", files, "c15-apiguard")
    tot, h, _ = daemon.collect(PROP, PREFIXES, res, files, v, {"family": "apiguard", "seed": seed, "tier": tier, "stride": stride})
    total += tot
    hits |= h
    all_files += files
    n = 3000 if thorough else 160
    files, _ = daemon.drive("hostile", PROP, seed, tier, n, parts)
    res = daemon.validate("TraceGuard", "TraceGuard.cfg", files, "c15-hostile")
    tot, h, _ = daemon.collect(PROP, PREFIXES, res, files, v, {"family": "hostile", "seed": seed, "tier": tier})
    total += tot
    hits |= h
    all_files += files
    nscen, nsig = daemon.count_scenarios(all_files)
    vac = [x for x in NEED if x not in hits]
    for x in vac:
        v.note("vacuous: clause tag %s was never exercised by this run" % x)
    cov = {
        "states": mc.get("distinct", 0),
        "transitions": mc.get("generated", 0),
        "traces_validated_against_impl": nscen,
        "samples": daemon.samples_from(all_files[-2:]),
        "evaluations": total,
        "distinct_nontrivial": nsig,
        "rule": "(a) %d enumerated cases = 10 public entry points (browse, browse_cache, stop_browse, resolve_hostname, stop_resolve_hostname, ServiceInfo::new + register "
                "with the shaped type / instance / host name, unregister, verify) x 232 label shapes x 9 suffixes; every %s replayed on a real daemon, followed by "
                "10 s of virtual time (probing, conflict rename, announcing, queries) and a liveness probe. (b) %d scenarios of 25-60 datagrams each (random bytes, "
                "mutations / truncations of valid packets, responses and queries with 63-byte labels, labels ending in a backslash, dots / backslashes / non-UTF-8 "
                "bytes inside labels, 255-byte names, conflicts for own names of 60-63 byte labels, 8 KB TXT, 400-record packets, unknown interface indexes). "
                "evaluations = trace events validated by TLC." % (ncases, "one" if thorough else "16th", n),
        "clause_tags_exercised": sorted(hits),
        "vacuous_tags": vac,
        "model_checking": [{k: mc.get(k) for k in ("module", "cfg", "generated", "distinct", "depth", "ok", "wall_s")}],
        "checker_cmd": "TRACE=<file> tlc -workers 1 -config TraceGuard.cfg TraceGuard.tla (per trace file; see vlib/core.py tlc_trace)",
        "exhaustive": False,
    }
    rc = v.finish()
    core.write_evidence(PROP, tier, seed, t0, cov, ASSUME, len(v.violations))
    return rc


def replay(path, seed):
    with open(path) as f:
        rp = json.load(f)
    c = rp["case"]
    v = core.Verdict(PROP)
    a = c["args"]
    sid = c["scenario"]["id"]
    out = os.path.join(core.workdir("c15"), "replay.ndjson")
    if a["family"] == "apiguard":
        _, cases, _ = _cases()
        core.harness(["apiguard", "--cases", cases, "--from", sid, "--to", sid, "--out", out, "--seed", a["seed"]])
    else:
        core.harness(["hostile", "--from", sid, "--to", sid, "--out", out, "--seed", a["seed"], "--tier", a["tier"]])
    res = daemon.validate("TraceGuard", "TraceGuard.cfg", [out], "c15-replay")
    daemon.collect(PROP, PREFIXES, res, [out], v, a)
    return v.finish()
