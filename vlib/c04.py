"""C04 (querier side): monitor spec/TraceBrowse.tla over spec/Heard.tla; see DESIGN.md section 7."""
from . import daemon

PROP = "C04"
PREFIXES = ['C04.']
ASSUME = ['the simulation layer (src/verif.rs) behaves like a kernel for what the properties observe (injected ingress with PKTINFO, captured egress, virtual clock)', "policy D: besides the daemon's own wake-ups the harness steps it at every instant where a delivered record reaches 80/85/90/95/100 % of its TTL and one second after every delivery; deadlines are judged in the first iteration at or after the due time (whether the daemon wakes by itself is C12)", "ground truth = spec/Heard.tla over the delivered packets (parsed by the harness's independent reader); names are compared by their lower-cased unescaped spelling unless a clause is about labels", 'weak readings chosen where the statement is silent: one-second grace around expiry (records in their last second count as gone), verify may or may not shorten address lifetimes, obligations only for records received in packets that were for this daemon']
RULE = "driver family 'browse': a real daemon browsing 1-2 types (and a subtype) against 1-3 scripted responders on 1-2 interfaces (v4/v6): announcements split into 1-4 datagrams in any order with duplicates, loss, delay and foreign records, updates (port / TXT / address, cache-flush), goodbyes (lost / duplicated / PTR only), TTLs 1 s .. 4500 s, instance labels with dots, backslashes, UTF-8, 63 bytes, responders answering the daemon's refresh / follow-up queries with probability 0, 1/2 or 1, verify with timeouts 0.1-30 s, stop_browse and browse-again, get_metrics."
FAMILIES = [('browse', [])]
MCS = [('MCHeard', 'MCHeard{T}.cfg')]


def run(tier, seed, t0):
    mcs = [(m, c.replace("{T}", "T" if tier == "thorough" else "")) for (m, c) in MCS]
    return daemon.run_group(PROP, tier, seed, t0, FAMILIES, "TraceBrowse", "TraceBrowse.cfg", PREFIXES, mcs,
                            ['ev.ServiceFound', 'ev.ServiceResolved', 'C04.followup', 'C04.loop-tries', 'C04.resolve-txt'], ASSUME, RULE, n_quick=80, n_thorough=2000)


def replay(path, seed):
    return daemon.replay_group(path, "TraceBrowse", "TraceBrowse.cfg", PREFIXES, PROP)
