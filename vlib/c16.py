"""C16 TXT properties survive the trip unchanged (component level; the
end-to-end clause C16.e2e is part of the daemon-level browse trace)."""
import json
import os
import re

from . import core

PROP = "C16"
ASSUME = [
    "keys handed to the API are valid UTF-8 (the API takes strings); case-variant non-ASCII keys are not generated (the spec lower-cases ASCII only)",
    "HashMap inputs are checked as sets (iteration order is unspecified) and only with keys that differ after lower-casing",
    "MCTxt uses Limit = 5 to explore the length-boundary arithmetic exhaustively; its fillers are rescaled to the real limit 255 for the replay",
]
MC_LIMIT = 5


def _cases(tier):
    cfg = "MCTxtT.cfg" if tier == "thorough" else "MCTxt.cfg"
    r = core.tlc_mc("MCTxt", cfg, "c16-mc", workers=1 if tier == "quick" else 4)
    path = os.path.join(core.workdir("c16"), "txtcases.ndjson")
    n = 0
    with open(path, "w") as f:
        for l in r["prints"]:
            m = re.match(r'<<"CASE", "(.*)">>', l.strip())
            if m:
                f.write(core._unescape_tla(m.group(1)) + "\n")
                n += 1
    return r, path, n


CHUNK = 40000   # trace lines per TLC run: the deserialised trace has to fit into the capped heap


def _tlc_chunks(trace, tag):
    """Validates the trace in chunks of CHUNK lines (in parallel); line numbers of failures are mapped back."""
    from concurrent.futures import ThreadPoolExecutor
    with open(trace) as f:
        raw = [l for l in f if l.strip()]
    if len(raw) <= CHUNK:
        return core.tlc_trace("TraceTxt", "TraceTxt.cfg", trace, tag)
    parts = []
    for k in range(0, len(raw), CHUNK):
        path = "%s.part%d" % (trace, k // CHUNK)
        with open(path, "w") as f:
            f.writelines(raw[k:k + CHUNK])
        parts.append((k, path))
    del raw
    with ThreadPoolExecutor(max_workers=6) as ex:
        res = list(ex.map(lambda kp: core.tlc_trace("TraceTxt", "TraceTxt.cfg", kp[1], "%s-%d" % (tag, kp[0] // CHUNK)), parts))
    out = {"consumed": 0, "total": 0, "viol": [], "wall_s": 0, "cmd": res[0]["cmd"] + "  (and %d more chunks)" % (len(res) - 1)}
    for (k, path), r in zip(parts, res):
        out["consumed"] += r["consumed"]
        out["total"] += r["total"]
        out["wall_s"] += r["wall_s"]
        out["viol"] += [(t, ln + k, cid) for (t, ln, cid) in r["viol"]]
        os.remove(path)
    return out


def _validate(trace, v, tag):
    r = _tlc_chunks(trace, tag)
    if r["viol"]:
        lines = core.read_ndjson(trace)
        for (t, ln, cid) in r["viol"]:
            e = lines[ln - 1]
            if e["e"] == "txt":
                disc = {"via": e["via"], "acc": e["acc"], "n": len(e["ps"])}
                v.violation(t, disc, {"driver": "txt", "via": e["via"], "ps": e["ps"], "wire": e["wire"], "dec": e["dec"]})
            else:
                v.violation(t, {"out": e["out"]}, {"driver": "txtdec", "b": e["b"], "dec": e["dec"], "uniq": e["uniq"]})
    return r


def run(tier, seed, t0):
    v = core.Verdict(PROP)
    mc, cases, ncases = _cases(tier)
    if not mc["ok"]:
        v.violation("C16.model", {"module": "MCTxt"}, {"tlc_error": mc.get("error", "")[:2000], "cmd": mc["cmd"]})
    trace = os.path.join(core.workdir("c16"), "txt.ndjson")
    summ = core.harness(["txt", "--cases", cases, "--limit", MC_LIMIT, "--out", trace, "--seed", seed, "--tier", tier])
    r = _validate(trace, v, "c16-trace")
    s = summ["summary"]
    lines = core.read_ndjson(trace)
    samples = []
    for e in lines[::max(1, len(lines) // 6)][:6]:
        if e["e"] == "txt":
            samples.append({"via": e["via"], "ps": [{"k": bytes(p["k"]).decode("latin1"), "hv": p["hv"], "vlen": len(p["v"])} for p in e["ps"]],
                            "accepted": e["acc"], "wire_len": len(e["wire"])})
        else:
            samples.append({"bytes_hex": bytes(e["b"]).hex()[:80], "decoded": len(e["dec"])})
    cov = {
        "states": mc.get("distinct", 0),
        "transitions": mc.get("generated", 0),
        "traces_validated_against_impl": r["consumed"],
        "samples": samples,
        "evaluations": s["lines"],
        "distinct_nontrivial": s["distinct_nontrivial"],
        "rule": "TLC enumerates every list of <= MaxProps properties over 6 keys x 9 values (MCTxt, %d lists; RoundTrip/ChunkBound/LookupCI/"
                "DecodeTotal checked on the model) and the lists are replayed through every input type that can carry them (Vec<TxtProperty>, "
                "&[(K,V)], HashMap / Option<HashMap>); a seeded generator adds lists with lengths around 255 and binary values; every byte "
                "string over {0,1,2,3,'=','a',FF} up to a fixed length and random / corrupted TXT data go into the decoder. non-trivial = "
                "accepted non-empty list, or bytes that decode to at least one property; distinct by (input type, list) / bytes" % ncases,
        "case_counts": s["counts"],
        "checker_cmd": r["cmd"],
        "exhaustive": False,
    }
    rc = v.finish()
    core.write_evidence(PROP, tier, seed, t0, cov, ASSUME, len(v.violations))
    return rc


def replay(path, seed):
    with open(path) as f:
        rp = json.load(f)
    v = core.Verdict(PROP)
    d = core.workdir("c16")
    trace = os.path.join(d, "replay.ndjson")
    c = rp["case"]
    if c["driver"] == "txt":
        case = os.path.join(d, "replay_case.ndjson")
        with open(case, "w") as f:
            f.write(json.dumps({"ps": c["ps"]}) + "\n")
        core.harness(["txt", "--cases", case, "--limit", 255, "--out", trace, "--only-cases", "1"])
    else:
        core.harness(["txt-bytes", "--hex", bytes(c["b"]).hex(), "--out", trace])
    _validate(trace, v, "c16-replay")
    return v.finish()
