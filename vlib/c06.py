"""C06 (responder side): see DESIGN.md section 7; monitor spec/TraceRespond.tla over spec/Responder.tla."""
from . import daemon

PROP = "C06"
PREFIXES = ["C06."]
ASSUME = ["the simulation layer (src/verif.rs) behaves like a kernel for what the properties observe: captured egress with the interface a kernel would choose (sticky IP_MULTICAST_IF), injected ingress with PKTINFO, virtual clock", "the daemon is woken exactly when it asks to be (policy W) and after every input; deadlines are judged in the first iteration at or after the due time", "packets are parsed by the harness's independent reader (wire.rs), cross-checked against Wire.tla by the C02 check", "lower-casing of names and the canonical rdata strings are computed by the harness (mechanical projection)"]
RULE = ("driver family 'respond': 1-2 simulated interfaces (IPv4 / IPv6 / both, several subnets), 1-3 services (shared hosts, subtypes, "
        "off-link addresses, with and without probing) registered possibly while others probe, then random queries of every kind "
        "(type / subtype / meta PTR, SRV / TXT / ANY on case-variant instance names, A / AAAA / ANY on host names, unknown names; "
        "1-3 questions; known answers with TTL 0, 1, half-1, half, half+1, full, 2^31-1; source port 5353 or ephemeral; v4 or v6), "
        "re-registrations with changed / unchanged data, unregister (known, unknown, case-variant), shutdown. Plus driver family 'conflict': "
        "after a conflict rename every question type is put to every daemon for the original and for the new names (the name that was lost is "
        "no longer answered for).")


def run(tier, seed, t0):
    return daemon.run_group(PROP, tier, seed, t0, [("respond", []), ("conflict", [], "TraceRespond", "TraceRespond.cfg", 40, 600)],
                            "TraceRespond", "TraceRespond.cfg", PREFIXES,
                            [("MCResponder", "MCResponder.cfg")], ["C06.answered","C06.silent-case","C06.legacy-case"], ASSUME, RULE)


def replay(path, seed):
    return daemon.replay_group(path, "TraceRespond", "TraceRespond.cfg", PREFIXES, PROP)
