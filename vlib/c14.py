"""C14 Shutdown is clean, final and safe under concurrent use.
(a) Lifecycle.tla (one step function per atomic step of the code) is model-checked (MCLifecycle: every interleaving of
    calls of every kind with the daemon thread's steps): CleanupOnce, CleanBeforeShutdown, OneShutdownReply, Final,
    SubProtocol, NoDangling, liveness ExitServed; the configuration with the remaining window enabled is expected to fail
    NoDangling (known finding) and, in the thorough tier, the configurations 'no drain' (the crate before the fix: must fail)
    and 'closing flag' (a repair that closes the window: must hold);
(b) MCLifeCases enumerates every schedule (<= N commands of every kind with an Exit, cut into loop iterations in every way);
    the driver family 'lifecases' replays them on a real daemon through the gate of the simulation layer (plus warm-up,
    pauses, calls in the exit window, calls after the end, queue-full schedules); TraceLifecycle runs the same step functions
    over the recorded trace and compares the observable state after every line;
(c) driver family 'threads': real client threads against a free-running daemon; TraceThreads asserts the order-insensitive
    reading of the same properties."""
import json
import os
import re

from . import core, daemon

PROP = "C14"
PREFIXES = ["C14."]
WINDOW = ("a command sent between the daemon's last look at its queue and the drop of the receiver stays in the channel")
ASSUME = [
    "in the replayed schedules the commands of a batch are queued while the daemon is parked at the gate, then exactly one loop iteration runs: "
    "calls are not interleaved with the daemon inside an iteration (that is what the model checking of the small steps and the real-thread family cover)",
    "calls use valid arguments that do not interact (distinct names; unregister / stop_browse of names that do not exist): argument checking is C15's, "
    "stop semantics C13's",
    "real-thread runs: a reply that has not arrived after 6 s of real time, a channel not closed after 8 s, a thread not back after 60 s count as blocked for ever",
    "real-thread runs assert only what does not depend on the unobservable interleaving (sequence numbers taken before a call starts and after its reply arrived)",
    "repeated SearchStarted events of an open search (one per query sent) count as one",
]
NEED = ["C14.cleanup", "C14.goodbye", "C14.goodbye-v6", "C14.stopped", "C14.behind-exit", "C14.after", "C14.after-seen", "C14.status-fast", "C14.again",
        "C14.window", "C14.shutdown-reply", "C14.threads", "C14.final"]


def _cases():
    r = core.tlc_mc("MCLifeCases", "MCLifeCases.cfg", "c14-cases", workers=1)
    path = os.path.join(core.workdir("c14"), "lifecases.ndjson")
    n = 0
    with open(path, "w") as f:
        for l in r["prints"]:
            m = re.match(r'<<"CASE", "(.*)">>', l.strip())
            if m:
                f.write(core._unescape_tla(m.group(1)) + "\n")
                n += 1
    r["prints"] = []
    return r, path, n


def _expect_fail(v, cfg, tag, what, invariant="InvNoDangling"):
    """A configuration of the model that must violate `invariant` (and nothing else)."""
    r = core.tlc_mc("MCLifecycle", cfg, tag, workers=8)
    if r["ok"]:
        v.note("model configuration %s no longer fails %s: the recorded finding / the sanity run is stale" % (cfg, invariant))
    elif ("Invariant %s is violated" % invariant) in r.get("error", "") + r.get("tail", ""):
        if what:
            v.violation("C14.hang", {"family": "model", "what": what}, {"cfg": cfg, "tlc_error": r.get("error", "")[:1500], "cmd": r["cmd"]})
    else:
        v.violation("C14.model", {"module": "MCLifecycle", "cfg": cfg}, {"tlc_error": r.get("error", "")[:2000], "cmd": r["cmd"]})
    return r


def run(tier, seed, t0):
    v = core.Verdict(PROP)
    thorough = tier == "thorough"
    mcs = []
    r = core.tlc_mc("MCLifecycle", "MCLifecycleT.cfg" if thorough else "MCLifecycle.cfg", "c14-mc", workers=16 if thorough else 8)
    mcs.append(r)
    if not r["ok"]:
        v.violation("C14.model", {"module": "MCLifecycle", "cfg": r["cfg"]}, {"tlc_error": r.get("error", "")[:2000], "cmd": r["cmd"]})
    # the window that remains: expected to fail NoDangling (known finding), demonstrated on the real daemon by the 'hold' scenarios below
    mcs.append(_expect_fail(v, "MCLifecycleWindow.cfg", "c14-mc-window",
                            WINDOW + ": NoDangling fails on the model (a try_send between DrainDone and DropRcv)"))
    if thorough:
        mcs.append(_expect_fail(v, "MCLifecycleNoDrain.cfg", "c14-mc-nodrain", None))
        rf = core.tlc_mc("MCLifecycle", "MCLifecycleFlag.cfg", "c14-mc-flag", workers=16)
        mcs.append(rf)
        if not rf["ok"]:
            v.note("the sketched repair (closing flag) does not satisfy the model any more: %s" % rf.get("error", "")[:300])
    mc, cases, ncases = _cases()
    mcs.append(mc)
    if not mc["ok"]:
        v.violation("C14.model", {"module": "MCLifeCases"}, {"tlc_error": mc.get("error", "")[:2000], "cmd": mc["cmd"]})
    if ncases == 0:
        raise core.ToolError("MCLifeCases printed no cases")
    total, hits, all_files = 0, set(), []
    parts = 8 if thorough else 4
    # (b) replay of the enumerated schedules
    stride = 1 if thorough else 12
    off = int(seed) % stride
    files, _ = daemon.drive("lifecases", PROP, seed, tier, ncases - off, parts, ["--cases", cases, "--stride", stride, "--full", 6 if thorough else 2], "-cases")
    res = daemon.validate("TraceLifecycle", "TraceLifecycle.cfg", files, "c14-lifecases")
    tot, h, _ = daemon.collect(PROP, PREFIXES, res, files, v, {"family": "lifecases", "seed": seed, "tier": tier, "stride": stride})
    total += tot
    hits |= h
    all_files += files
    # (c) real threads
    n = 1600 if thorough else 96
    files, _ = daemon.drive("threads", PROP, seed, tier, n, parts)
    res = daemon.validate("TraceThreads", "TraceThreads.cfg", files, "c14-threads")
    tot, h, _ = daemon.collect(PROP, PREFIXES, res, files, v, {"family": "threads", "seed": seed, "tier": tier})
    total += tot
    hits |= h
    nscen, nsig = daemon.count_scenarios(all_files)
    nthr = sum(1 for f in files for l in core.read_ndjson(f) if l["e"] == "reset")
    vac = [x for x in NEED if x not in hits]
    for x in vac:
        v.note("vacuous: clause tag %s was never exercised by this run" % x)
    cov = {
        "states": sum(x.get("distinct", 0) for x in mcs),
        "transitions": sum(x.get("generated", 0) for x in mcs),
        "traces_validated_against_impl": nscen + nthr,
        "samples": daemon.samples_from(all_files[-2:]),
        "evaluations": total,
        "distinct_nontrivial": nsig + nthr,
        "rule": "(a) MCLifecycle: all interleavings of up to %d calls over 7 kinds (queue capacity 2) with the 7 atomic steps of the daemon thread, liveness "
                "under weak fairness of the daemon. (b) MCLifeCases: %d schedules = every sequence of <= 4 commands of 7 kinds containing an Exit x every "
                "cut into loop iterations; every %s replayed on a real daemon (by seed: warm-up leaving an announced service and open searches, pauses of "
                "virtual time, daemon held in the exit window with 0-2 calls made there, 1-3 calls after the end; plus queue-full schedules of ~100 "
                "commands). (c) %d runs of 2-6 real client threads x 6-28 calls each on clones of the handle while one (sometimes two) shuts down. "
                "evaluations = trace events validated by TLC." % (5 if thorough else 4, ncases, "one" if thorough else "12th", nthr),
        "clause_tags_exercised": sorted(hits),
        "vacuous_tags": vac,
        "model_checking": [{k: x.get(k) for k in ("module", "cfg", "generated", "distinct", "depth", "ok", "wall_s")} for x in mcs],
        "checker_cmd": "TRACE=<file> tlc -workers 1 -config TraceLifecycle.cfg TraceLifecycle.tla / TraceThreads.cfg TraceThreads.tla (see vlib/core.py tlc_trace)",
        "exhaustive": False,
    }
    rc = v.finish()
    core.write_evidence(PROP, tier, seed, t0, cov, ASSUME, len(v.violations))
    return rc


def replay(path, seed):
    with open(path) as f:
        rp = json.load(f)
    c = rp["case"]
    v = core.Verdict(PROP)
    if "cfg" in c:
        r = core.tlc_mc("MCLifecycle", c["cfg"], "c14-replay", workers=8)
        if not r["ok"]:
            v.violation(rp["tag"], rp["disc"], {"cfg": c["cfg"], "tlc_error": r.get("error", "")[:1500]})
        return v.finish()
    a = c["args"]
    sid = c["scenario"]["id"]
    out = os.path.join(core.workdir("c14"), "replay.ndjson")
    if a["family"] == "lifecases":
        _, cases, _ = _cases()
        if sid >= 1000000:
            core.harness(["lifecases", "--cases", cases, "--from", (sid - 1000000) // 100, "--to", 0, "--full", sid % 100 + 1, "--out", out, "--seed", a["seed"]])
        else:
            core.harness(["lifecases", "--cases", cases, "--from", sid, "--to", sid, "--out", out, "--seed", a["seed"]])
        res = daemon.validate("TraceLifecycle", "TraceLifecycle.cfg", [out], "c14-replay")
    else:
        core.harness(["threads", "--from", sid, "--to", sid, "--out", out, "--seed", a["seed"]])
        res = daemon.validate("TraceThreads", "TraceThreads.cfg", [out], "c14-replay")
    daemon.collect(PROP, PREFIXES, res, [out], v, a)
    return v.finish()
