"""Shared runner for the daemon-level properties: drive the real daemon in the
simulation (harness family driver), validate the recorded traces with a TLC
trace monitor, attribute violations to properties by clause tag."""
import json
import os
from concurrent.futures import ThreadPoolExecutor

from . import core


def drive(family, prop, seed, tier, n, parts, extra=None, tagx=""):
    """Runs `n` scenarios of a family, split over `parts` trace files."""
    d = core.workdir(prop.lower())
    files = []
    per = (n + parts - 1) // parts
    jobs = []
    for k in range(parts):
        lo = k * per + 1
        hi = min(n, (k + 1) * per)
        if lo > hi:
            break
        path = os.path.join(d, "%s%s_%d.ndjson" % (family, tagx, k))
        args = [family, "--from", lo, "--to", hi, "--out", path, "--seed", seed, "--tier", tier] + (extra or [])
        jobs.append((path, args))
    with ThreadPoolExecutor(max_workers=parts) as ex:
        res = list(ex.map(lambda j: core.harness(j[1]), jobs))
    for (path, _), r in zip(jobs, res):
        files.append(path)
    lines = sum(r.get("summary", {}).get("lines", 0) for r in res)
    return files, lines


def split_by_daemon(path):
    """Multi-daemon traces (conflict family) are judged per daemon by the single-daemon monitors:
    one file per daemon index with that daemon's lines plus the shared ones (reset, adv, end)."""
    outs = {}
    with open(path) as f:
        for line in f:
            if not line.strip():
                continue
            v = json.loads(line)
            ds = [v["d"]] if "d" in v else None
            if ds is None:
                if v["e"] == "reset":
                    n = v["scen"].get("n", 1)
                    known = set(range(n))
                for d in (known if v["e"] in ("reset", "adv", "end") else []):
                    outs.setdefault(d, []).append(line)
            else:
                outs.setdefault(ds[0], []).append(line)
    files = []
    for d, lines in sorted(outs.items()):
        p = "%s.d%d" % (path, d)
        with open(p, "w") as f:
            f.writelines(lines)
        files.append(p)
    return files


def validate(module, cfg, files, tag, env=None):
    def one(i_path):
        i, path = i_path
        return core.tlc_trace(module, cfg, path, "%s-%d" % (tag, i), env=env)
    with ThreadPoolExecutor(max_workers=min(6, len(files))) as ex:
        return list(ex.map(one, enumerate(files)))


def scenario_of(lines, ln):
    """(scenario id, family) of trace line ln (1-based) = the last reset before it."""
    for j in range(ln - 1, -1, -1):
        if lines[j]["e"] == "reset":
            return lines[j]["scen"]
    return {}


def collect(prop, prefixes, results, files, v, family_args):
    """Feeds the violations whose tag starts with one of `prefixes` into the
    verdict; returns (events validated, hits, per-tag counts of foreign tags)."""
    total = 0
    hits = set()
    foreign = {}
    for r, path in zip(results, files):
        total += r["consumed"]
        hits |= set(r.get("hits", []))
        if not r["viol"]:
            continue
        lines = core.read_ndjson(path)
        for item in r["viol"]:
            tag, ln, scen = item[0], item[1], item[2]
            extra = item[3] if len(item) > 3 else None
            if not any(tag.startswith(p) for p in prefixes):
                foreign[tag] = foreign.get(tag, 0) + 1
                continue
            sc = scenario_of(lines, ln)
            what = extra[0] if isinstance(extra, list) and extra and isinstance(extra[0], str) else ""
            disc = {"family": sc.get("family", ""), "what": what}
            payload = {"driver": sc.get("family", ""), "scenario": sc, "line": ln, "tag": tag,
                       "detail": json.dumps(extra)[:1500], "args": family_args,
                       "event": json.dumps(lines[ln - 1])[:3000]}
            v.violation(tag, disc, payload)
    return total, hits, foreign


def samples_from(files, k=4):
    out = []
    for path in files[:2]:
        lines = core.read_ndjson(path)
        calls = [l for l in lines if l["e"] in ("call", "deliver", "cop")][: k]
        for c in calls:
            if c["e"] == "cop":
                out.append({"t": c["t"], "cache_op": c["k"], "records": ["%s %s ttl %s" % (r["n"], r["ty"], r["ttl"]) for r in c.get("recs", [])],
                            "cached_after": len(c.get("dump", []))})
            elif c["e"] == "call":
                out.append({"t": c["t"], "call": c["fn"], "args": {x: c["args"][x] for x in list(c["args"])[:6]}, "res": c["res"]})
            else:
                m = c.get("m", {})
                out.append({"t": c["t"], "deliver_if": c["if"], "from": "%s:%s" % (c["src"], c["sport"]),
                            "questions": [q["n"]["u"] + " " + q["ty"] for q in m.get("q", [])],
                            "answers": [r["n"]["u"] + " " + r["ty"] + " ttl " + str(r["ttl"]) for r in m.get("an", [])][:6]})
    return out[: 2 * k]


def count_scenarios(files):
    n = 0
    sigs = set()
    for path in files:
        cur = []
        for l in core.read_ndjson(path):
            if l["e"] == "reset":
                if cur:
                    sigs.add("|".join(cur))
                cur = []
                n += 1
            elif l["e"] == "cop":
                cur.append(l["k"] + ":" + ",".join("%s/%s" % (r["ty"], r["ttl"]) for r in l.get("recs", [])))
            elif l["e"] == "call":
                cur.append(l["fn"] + ":" + l["res"])
            elif l["e"] == "deliver":
                m = l.get("m", {})
                cur.append("d:" + ",".join(q["ty"] for q in m.get("q", [])) + ":" + str(len(m.get("an", []))))
        if cur:
            sigs.add("|".join(cur))
    return n, len(sigs)


def run_group(prop, tier, seed, t0, families, module, cfg, prefixes, mcs, need_hits, assume, rule,
              n_quick=150, n_thorough=3000, pre=None):
    """Generic check body for a daemon-level property.
    families: list of (family name, extra args[, module, cfg[, n_quick, n_thorough]]).
    mcs: list of (module, cfg) TLC model-checking runs."""
    v = core.Verdict(prop)
    mc_res = []
    for (m, c) in mcs:
        r = core.tlc_mc(m, c, "%s-%s" % (prop.lower(), c.replace(".cfg", "")), workers=16 if tier == "thorough" else 4)
        mc_res.append(r)
        if not r["ok"]:
            v.violation(prop + ".model", {"module": m, "cfg": c}, {"tlc_error": r.get("error", "")[:2000], "cmd": r["cmd"]})
    n = n_thorough if tier == "thorough" else n_quick
    all_files, total, hits, foreign = [], 0, set(), {}
    if pre:
        # a component-level step of its own (models, drivers, monitor), accounted for with the rest
        x = pre(v, tier, seed)
        mc_res += x["mcs"]
        all_files += x["files"]
        total += x["total"]
        hits |= x["hits"]
    for fam in families:
        family, extra = fam[0], fam[1]
        fmodule, fcfg = (fam[2], fam[3]) if len(fam) > 3 else (module, cfg)
        fn = (fam[5] if tier == "thorough" else fam[4]) if len(fam) > 5 else n
        files, _ = drive(family, prop, seed, tier, fn, 8 if tier == "thorough" else 4, extra, "-" + fmodule)
        if family in SPLIT_FAMILIES:
            # several daemons in one world: each daemon's trace is judged on its own by the single-daemon monitor
            files = [p for f in files for p in split_by_daemon(f)]
        results = validate(fmodule, fcfg, files, prop.lower() + "-" + family + "-" + fmodule)
        tot, h, fo = collect(prop, prefixes, results, files, v, {"family": family, "seed": seed, "tier": tier})
        total += tot
        hits |= h
        for k, x in fo.items():
            foreign[k] = foreign.get(k, 0) + x
        all_files += files
    nscen, nsig = count_scenarios(all_files)
    vac = [h for h in need_hits if h not in hits]
    for h in vac:
        v.note("vacuous: clause tag %s was never exercised by this run" % h)
    if foreign:
        v.note("clauses of other properties failed in this run (reported by their own checks): %s" % json.dumps(foreign))
    cov = {
        "states": max(1, sum(x.get("distinct", 0) for x in mc_res)),
        "transitions": max(1, sum(x.get("generated", 0) for x in mc_res)),
        "traces_validated_against_impl": nscen,
        "samples": samples_from(all_files),
        "evaluations": total,
        "distinct_nontrivial": nsig,
        "rule": rule + " evaluations = trace events validated by TLC; distinct_nontrivial = scenarios with distinct call/delivery signatures.",
        "clause_tags_exercised": sorted(hits),
        "vacuous_tags": vac,
        "model_checking": [{k: x.get(k) for k in ("module", "cfg", "generated", "distinct", "depth", "ok", "wall_s")} for x in mc_res],
        "checker_cmd": "TRACE=<file> tlc -workers 1 -config %s %s.tla (per trace file; see vlib/core.py tlc_trace)" % (cfg, module),
        "exhaustive": False,
    }
    rc = v.finish()
    core.write_evidence(prop, tier, seed, t0, cov, assume, len(v.violations))
    return rc


SPLIT_FAMILIES = {"conflict", "probecases"}
FAMILY_MODULE = {"conflict": ("TraceRespond", "TraceRespond.cfg"), "respond": ("TraceRespond", "TraceRespond.cfg"), "browse": ("TraceBrowse", "TraceBrowse.cfg"), "browsew": ("TraceBrowse", "TraceBrowse.cfg"),
                 "resolve": ("TraceBrowse", "TraceBrowse.cfg"), "resolvew": ("TraceBrowse", "TraceBrowse.cfg"), "flood": ("TraceBrowse", "TraceBrowse.cfg"),
                 "silent": ("TraceBrowse", "TraceBrowse.cfg")}


def replay_group(path, module, cfg, prefixes, prop):
    with open(path) as f:
        rp = json.load(f)
    c = rp["case"]
    if c.get("args", {}).get("family") in FAMILY_MODULE:
        module, cfg = FAMILY_MODULE[c["args"]["family"]]
    v = core.Verdict(prop)
    sid = c["scenario"]["id"]
    a = c["args"]
    out = os.path.join(core.workdir(prop.lower()), "replay.ndjson")
    core.harness([a["family"], "--from", sid, "--to", sid, "--out", out, "--seed", a["seed"], "--tier", a["tier"]])
    outs = split_by_daemon(out) if a["family"] in SPLIT_FAMILIES else [out]
    mods = [(module, cfg)]
    if a["family"] == "silent":
        mods.append(("TraceRespond", "TraceRespond.cfg"))
    for (m, c) in mods:
        res = validate(m, c, outs, prop.lower() + "-replay")
        collect(prop, prefixes, res, outs, v, a)
    return v.finish()
