"""C01 Decoding any datagram is safe, terminating and bounded."""
import json
import os
import re
import time

from . import core

PROP = "C01"
ASSUME = [
    "the facade (src/verif.rs decode/record_view) reports what DnsIncoming::new returned without altering it",
    "wall-clock budget per decode is 1500 ms (generous; a hang is decided by a 6 s watchdog in a child process)",
    "memory: peak heap use of the call as counted by a wrapper around the system allocator in the harness (the thread of the call only); budget "
    "64 bytes per byte of datagram + 8 KB, three times the largest use observed on the unchanged tree",
    "NSEC and HINFO rdata are compared on header fields only (their fields are private to the codec module)",
    "TLC 1.8 evaluates Wire!ParseMsg / DecodeMech!MechParse as written",
]


def _mc(tier):
    """Model checking of the decoder's algorithm; MCDecodeRR and MCDecodePtr also print the datagrams they
    enumerate (one worker: the prints of several workers would interleave), which are replayed on the real decoder."""
    suf = "T" if tier == "thorough" else ""
    w = 16 if tier == "thorough" else 6
    r1 = core.tlc_mc("MCDecode", "MCDecode%s.cfg" % suf, "c01-name", workers=w)
    r2 = core.tlc_mc("MCDecodeRR", "MCDecodeRR%s.cfg" % suf, "c01-rr", workers=1)
    r3 = core.tlc_mc("MCDecodePtr", "MCDecodePtr%s.cfg" % suf, "c01-ptr", workers=1)
    path = os.path.join(core.workdir("c01"), "tlc_cases.ndjson")
    n = 0
    with open(path, "w") as f:
        for r in (r2, r3):
            for l in r["prints"]:
                m = re.match(r'<<"CASE", "(.*)">>', l.strip())
                if m:
                    f.write(core._unescape_tla(m.group(1)) + "\n")
                    n += 1
            r["prints"] = []
    return [r1, r2, r3], path, n


def _validate(trace, v, tag, parts=6):
    """Every line of the trace is judged on its own: the file is cut into `parts` pieces validated in parallel."""
    from concurrent.futures import ThreadPoolExecutor
    all_lines = [l for l in open(trace) if l.strip()]
    parts = max(1, min(parts, len(all_lines) // 2000 + 1))
    per = (len(all_lines) + parts - 1) // parts
    files = []
    for k in range(parts):
        chunk = all_lines[k * per:(k + 1) * per]
        if not chunk:
            break
        p = "%s.part%d" % (trace, k)
        with open(p, "w") as f:
            f.writelines(chunk)
        files.append(p)
    with ThreadPoolExecutor(max_workers=len(files)) as ex:
        rs = list(ex.map(lambda kp: core.tlc_trace("TraceDecode", "TraceDecode.cfg", kp[1], "%s-%d" % (tag, kp[0])), enumerate(files)))
    total = {"viol": [], "drift": [], "consumed": 0, "cmd": rs[0]["cmd"]}
    for p, r in zip(files, rs):
        total["consumed"] += r["consumed"]
        lines = core.read_ndjson(p) if (r["viol"] or r.get("drift")) else None
        for (t, ln, cid) in r["viol"]:
            e = lines[ln - 1]
            disc = {"kind": e["kind"], "out": e["out"]}
            v.violation(t, disc, {"driver": "decode", "bytes_hex": bytes(e["b"]).hex(), "out": e["out"], "ms": e["ms"], "mem": e.get("mem")})
            total["viol"].append((t, ln, cid))
        for (t, ln, cid) in r.get("drift", [])[:5]:
            e = lines[ln - 1]
            v.note("drift: decoder outcome %s differs from DecodeMech!MechParse on %s (model no longer transcribes the code)"
                   % (e["out"], bytes(e["b"]).hex()[:120]))
            total["drift"].append((t, ln, cid))
    return total


def run(tier, seed, t0):
    v = core.Verdict(PROP)
    mcs, tlc_cases, n_tlc = _mc(tier)
    for r in mcs:
        if not r["ok"]:
            # the model of the decoder's algorithm itself violates C01
            v.violation("C01.model", {"module": r["module"]}, {"tlc_error": r.get("error", "")[:2000], "cmd": r["cmd"]})
    trace = os.path.join(core.workdir("c01"), "decode.ndjson")
    summ = core.harness(["decode", "--out", trace, "--seed", seed, "--tier", tier, "--cases", tlc_cases])
    r = _validate(trace, v, "c01-trace")
    s = summ["summary"]
    samples = []
    for e in core.read_ndjson(trace)[::max(1, s["cases"] // 6)][:6]:
        samples.append({"kind": e["kind"], "bytes_hex": bytes(e["b"]).hex()[:160], "out": e["out"],
                        "records": len(e["an"]) + len(e["ns"]) + len(e["ar"]), "questions": len(e["q"])})
    cov = {
        "states": sum(x.get("distinct", 0) for x in mcs),
        "transitions": sum(x.get("generated", 0) for x in mcs),
        "traces_validated_against_impl": r["consumed"],
        "samples": samples,
        "evaluations": s["cases"],
        "distinct_nontrivial": s["ok_nonempty_distinct"],
        "rule": "enumerated: every string over the alphabet %s up to length %d after a header (as question name, raw RR, "
                "and RDATA of PTR/SRV/NSEC/HINFO with RDLENGTH exact/-1/+1); TLC-enumerated: %d datagrams from MCDecodePtr (every structure of compression "
                "pointers among K two-byte slots) and MCDecodeRR (every type x RDLENGTH claim x RDATA string); generated: random bytes, mutated valid packets, "
                "grammar-built hostile packets, datagrams of ~9000 bytes, headers whose section counts (1 .. 65535) promise far more than the 0-40 bytes that follow. non-trivial = decoded successfully with at least one "
                "question or record, distinct by bytes" % (summ["alphabet"], summ["maxlen"], n_tlc),
        "outcome_counts": s["counts"],
        "model_checking": [{k: x.get(k) for k in ("module", "cfg", "generated", "distinct", "depth", "ok", "wall_s")} for x in mcs],
        "drift_lines": len(r.get("drift", [])),
        "checker_cmd": r["cmd"],
        "exhaustive": False,
    }
    rc = v.finish()
    core.write_evidence(PROP, tier, seed, t0, cov, ASSUME, len(v.violations))
    return rc


def replay(path, seed):
    with open(path) as f:
        rp = json.load(f)
    v = core.Verdict(PROP)
    trace = os.path.join(core.workdir("c01"), "replay.ndjson")
    core.harness(["decode-one", "--out", trace, "--hex", rp["case"]["bytes_hex"]])
    _validate(trace, v, "c01-replay")
    return v.finish()
