"""C08 Name conflicts resolve to one winner and a consistent new name for the loser.
(a) Compare.tla model-checked (MCCompare) and every enumerated pair replayed through the crate's
    Probe::tiebreaking from both sides; renaming functions against the rule;
(b) driver family 'conflict' (2-3 real daemons in one world / injected conflicts): each daemon's trace is
    judged by TraceRespond (names read off the wire: every later packet must use the new names), the
    combined trace by TraceConflict (outcome)."""
import json
import os
import re

from . import core, daemon

PROP = "C08"
RESP_PREFIXES = ["C08.", "C06.", "C07.", "C09.", "C10."]
ASSUME = [
    "the link between the simulated daemons is loss-free; a datagram sent in one iteration is delivered to every peer, which is woken for it (like poll() returning)",
    "the renaming rule ('x' -> 'x (2)', 'h' -> 'h-2', counting up, first label only, escape-aware) is computed independently by the harness and logged; "
    "the monitor adopts a new name for a registration only when an announcement under one of these candidates is seen on the wire",
    "the statement promises a unique outcome for two claimants; with three, a collision of the two losers on the name they both moved to is reported as a NOTE",
    "comparison replay embeds the model's short RDATA values order-preservingly into A and TXT records",
]


def _cases(tier):
    r = core.tlc_mc("MCCompare", "MCCompare.cfg", "c08-mc", workers=1)
    path = os.path.join(core.workdir("c08"), "cmpcases.ndjson")
    n = 0
    with open(path, "w") as f:
        for l in r["prints"]:
            m = re.match(r'<<"CASE", "(.*)">>', l.strip())
            if m:
                f.write(core._unescape_tla(m.group(1)) + "\n")
                n += 1
    return r, path, n


def _probe_models(v, tier):
    """ProbeMech.tla: the probing / tie-breaking / renaming mechanism for 2 (thorough: also 3) daemons, every vector of start
    ticks and every order of datagram arrivals and loop iterations; the configuration without the tiebreak must fail NoSharedName
    (sanity of the model). MCProbeCases prints the start vectors, which the conflict driver replays on real daemons."""
    mcs = [core.tlc_mc("ProbeMech", "MCProbeMech.cfg", "c08-probemech", workers=4)]
    if tier == "thorough":
        mcs.append(core.tlc_mc("ProbeMech", "MCProbeMech3.cfg", "c08-probemech3", workers=16, timeout=3000))
    for r in mcs:
        if not r["ok"]:
            v.violation("C08.model", {"module": "ProbeMech", "cfg": r["cfg"]}, {"tlc_error": r.get("error", "")[:2000], "cmd": r["cmd"]})
    nt = core.tlc_mc("ProbeMech", "MCProbeMechNoTie.cfg", "c08-probemech-notie", workers=4)
    if nt["ok"] or "NoSharedName" not in nt.get("error", "") + nt.get("tail", ""):
        v.note("ProbeMech without the tiebreak no longer violates NoSharedName: the model has lost its teeth")
    mcs.append(nt)
    pc = core.tlc_mc("MCProbeCases", "MCProbeCases.cfg", "c08-probecases", workers=1)
    path = os.path.join(core.workdir("c08"), "probecases.ndjson")
    n = 0
    with open(path, "w") as f:
        for l in pc["prints"]:
            m = re.match(r'<<"CASE", "(.*)">>', l.strip())
            if m:
                f.write(core._unescape_tla(m.group(1)) + "\n")
                n += 1
    pc["prints"] = []
    mcs.append(pc)
    return mcs, path, n


def _outcomes(v, tier):
    """What ProbeMech.tla can settle in, per start vector (two claimants; three claimants with start ticks up to 6 on every
    change, up to 9 in the thorough tier): one ndjson line [start, rens] per vector, read by TraceConflict.tla."""
    table = {}
    runs = []
    for cfg in ["MCProbeOutcomes2.cfg", "MCProbeOutcomes3T.cfg" if tier == "thorough" else "MCProbeOutcomes3.cfg"]:
        # (several workers: every PrintT is one whole line; a line that does not parse is a tool error, not a smaller table)
        r = core.tlc_mc("MCProbeOutcomes", cfg, "c08-" + cfg.replace(".cfg", ""), workers=8, timeout=2400)
        if not r["ok"]:
            v.violation("C08.model", {"module": "MCProbeOutcomes", "cfg": cfg}, {"tlc_error": r.get("error", "")[:2000], "cmd": r["cmd"]})
        for l in r["prints"]:
            if '"OUT"' not in l:
                continue
            m = re.match(r'^<<"OUT", "(.*)">>$', l.strip())
            if not m:
                raise core.ToolError("garbled outcome line from MCProbeOutcomes: %r" % l[:200])
            d = json.loads(core._unescape_tla(m.group(1)))
            table.setdefault(tuple(d["start"]), set()).add(tuple(d["ren"]))
        r["prints"] = []
        runs.append(r)
    path = os.path.join(core.workdir("c08"), "outcomes.ndjson")
    with open(path, "w") as f:
        for k in sorted(table):
            f.write(json.dumps({"start": list(k), "rens": [list(x) for x in sorted(table[k])]}) + "\n")
    if not table:
        raise core.ToolError("MCProbeOutcomes printed no outcomes")
    return runs, path


def run(tier, seed, t0):
    v = core.Verdict(PROP)
    mc, cases, ncases = _cases(tier)
    if not mc["ok"]:
        v.violation("C08.model", {"module": "MCCompare"}, {"tlc_error": mc.get("error", "")[:2000], "cmd": mc["cmd"]})
    pmcs, pcases, npc = _probe_models(v, tier)
    omcs, outcomes = _outcomes(v, tier)
    pmcs += omcs
    # (a) comparison + renaming replay
    ctrace = os.path.join(core.workdir("c08"), "compare.ndjson")
    csum = core.harness(["compare", "--cases", cases, "--out", ctrace])
    cr = core.tlc_trace("TraceCompare", "TraceCompare.cfg", ctrace, "c08-compare")
    if cr["viol"]:
        lines = core.read_ndjson(ctrace)
        for item in cr["viol"]:
            tag, ln = item[0], item[1]
            e = lines[ln - 1]
            what = item[3][0] if len(item) > 3 and item[3] else ""
            v.violation(tag, {"family": "compare", "what": what}, {"driver": "compare", "event": e})
    # (b) conflict family
    n = 1200 if tier == "thorough" else 100
    files, _ = daemon.drive("conflict", PROP, seed, tier, n, 8 if tier == "thorough" else 4)
    # start vectors enumerated from ProbeMech.tla (spec -> implementation): every 6th on every change, all in the thorough tier
    pstride = 1 if tier == "thorough" else 6
    pfiles, _ = daemon.drive("probecases", PROP, seed, tier, npc - int(seed) % pstride, 8 if tier == "thorough" else 4,
                             ["--cases", pcases, "--stride", pstride], "-cases")
    files += pfiles
    args = {"family": "conflict", "seed": seed, "tier": tier}
    total, hits, foreign = cr["consumed"], set(), {}
    per_daemon = []
    for f in files:
        per_daemon += daemon.split_by_daemon(f)
    res = daemon.validate("TraceRespond", "TraceRespond.cfg", per_daemon, "c08-resp")
    tot, h, fo = daemon.collect(PROP, RESP_PREFIXES, res, per_daemon, v, args)
    total += tot
    hits |= h
    res2 = daemon.validate("TraceConflict", "TraceConflict.cfg", files, "c08-outcome", env={"OUTCOMES": outcomes})
    for r, path in zip(res2, files):
        r["viol"] = [x for x in r["viol"] if not x[0].startswith("NOTE.")] if True else r["viol"]
    notes = 0
    res2n = daemon.validate("TraceConflict", "TraceConflict.cfg", files[:0], "c08-outcome-n") if False else []
    tot, h, fo2 = daemon.collect(PROP, ["C08."], res2, files, v, args)
    hits |= h
    nscen, nsig = daemon.count_scenarios(files)
    need = ["C08.outcome", "C08.outcome-model", "C08.backoff", "C07.probe", "C07.announce", "C09.goodbye", "C06.answered"]
    vac = [x for x in need if x not in hits]
    for x in vac:
        v.note("vacuous: clause tag %s was never exercised by this run" % x)
    cov = {
        "states": mc.get("distinct", 0) + sum(x.get("distinct", 0) for x in pmcs),
        "transitions": mc.get("generated", 0) + sum(x.get("generated", 0) for x in pmcs),
        "traces_validated_against_impl": nscen + 1,
        "samples": daemon.samples_from(files) + [{"tiebreak_pairs_replayed": ncases, "rename_cases": csum["summary"]["lines"] - ncases}],
        "evaluations": total,
        "distinct_nontrivial": nsig + csum["summary"]["distinct_pairs"],
        "rule": "(a) every pair of sorted record lists of <= 2 records over 2 classes x {A, TXT} x 3 RDATA values (MCCompare, %d pairs) replayed through "
                "Probe::tiebreaking from both sides; name_change / hostname_change on names with (N) / -N suffixes, escaped dots, 58-63-byte labels. "
                "(b) driver family 'conflict': two or three real daemons registering the same instance (and mostly the same host) name with different "
                "addresses / ports at offsets from simultaneous to seconds apart (1 ms resolution, all jitters by seed), and a single daemon receiving a "
                "conflicting response, a winning / losing competing probe or an identical response before, between and after its probes; afterwards "
                "queries for old and new names of every type and an unregister. (c) ProbeMech.tla model-checked (2 claimants; thorough: 3) and its "
                "start-tick vectors (MCProbeCases, 0..8 ticks of 250 ms for 2 and 3 claimants) replayed on real daemons with a seeded sub-tick jitter. distinct_nontrivial = distinct scenario signatures + distinct list pairs." % ncases,
        "clause_tags_exercised": sorted(hits),
        "vacuous_tags": vac,
        "model_checking": [{k: x.get(k) for k in ("module", "cfg", "generated", "distinct", "depth", "ok", "wall_s")} for x in [mc] + pmcs],
        "checker_cmd": "TRACE=<file> tlc -workers 1 -config TraceRespond.cfg TraceRespond.tla (per daemon); TraceConflict.tla (combined); TraceCompare.tla",
        "exhaustive": False,
    }
    rc = v.finish()
    core.write_evidence(PROP, tier, seed, t0, cov, ASSUME, len(v.violations))
    return rc


def replay(path, seed):
    with open(path) as f:
        rp = json.load(f)
    c = rp["case"]
    v = core.Verdict(PROP)
    if c.get("driver") == "compare":
        d = core.workdir("c08")
        case = os.path.join(d, "replay_case.ndjson")
        with open(case, "w") as f:
            f.write(json.dumps({"a": c["event"].get("a", []), "b": c["event"].get("b", [])}) + "\n")
        out = os.path.join(d, "replay.ndjson")
        core.harness(["compare", "--cases", case, "--out", out])
        r = core.tlc_trace("TraceCompare", "TraceCompare.cfg", out, "c08-replay")
        lines = core.read_ndjson(out)
        for item in r["viol"]:
            v.violation(item[0], {"family": "compare", "what": item[3][0] if len(item) > 3 and item[3] else ""}, {"event": lines[item[1] - 1]})
        return v.finish()
    sid = c["scenario"]["id"]
    a = c["args"]
    out = os.path.join(core.workdir("c08"), "replay.ndjson")
    if c["scenario"].get("family") == "probecases":
        _, pcases, _ = _probe_models(v, "quick")
        core.harness(["probecases", "--cases", pcases, "--from", sid // 2, "--to", sid // 2, "--out", out, "--seed", a["seed"], "--tier", a["tier"]])
    else:
        core.harness(["conflict", "--from", sid, "--to", sid, "--out", out, "--seed", a["seed"], "--tier", a["tier"]])
    parts = daemon.split_by_daemon(out)
    res = daemon.validate("TraceRespond", "TraceRespond.cfg", parts, "c08-replay")
    daemon.collect(PROP, RESP_PREFIXES, res, parts, v, a)
    _, outcomes = _outcomes(v, "quick")
    res2 = daemon.validate("TraceConflict", "TraceConflict.cfg", [out], "c08-replay-o", env={"OUTCOMES": outcomes})
    for r in res2:
        r["viol"] = [x for x in r["viol"] if not x[0].startswith("NOTE.")]
    daemon.collect(PROP, ["C08."], res2, [out], v, a)
    return v.finish()
