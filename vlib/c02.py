"""C02 Every emitted packet parses back to exactly the records that were added."""
import json
import os
import re

from . import core

PROP = "C02"
ASSUME = [
    "Wire!ParseMsg is the independent RFC 1035 parser; it is itself validated by TLC against a reference encoder (MCWire!OracleRoundTrip)",
    "messages are built through the facade (record constructors + DnsOutgoing API) with names given as RFC 6763-escaped strings of the intended labels",
    "TTL 0 read back as 1 in responses by the crate's decoder is the documented RFC 6762 10.1 normalisation, not a difference",
]


def _cases_from_tlc(tier):
    cfg = "MCWireT.cfg" if tier == "thorough" else "MCWire.cfg"
    r = core.tlc_mc("MCWire", cfg, "c02-wire", workers=1)
    path = os.path.join(core.workdir("c02"), "wirecases.ndjson")
    n = 0
    with open(path, "w") as f:
        for l in r["prints"]:
            m = re.match(r'<<"CASE", "(.*)">>', l.strip())
            if m:
                f.write(core._unescape_tla(m.group(1)) + "\n")
                n += 1
    return r, path, n


def _disc(e):
    nq = len(e["m"]["q"])
    return {"kind": e["kind"], "cause": "questions" if nq > 300 else "records"}


def _validate(trace, v, tag):
    r = core.tlc_trace("TraceEncode", "TraceEncode.cfg", trace, tag)
    if r["viol"]:
        lines = core.read_ndjson(trace)
        for (t, ln, cid) in r["viol"]:
            e = lines[ln - 1]
            v.violation(t, _disc(e), {"driver": "encode", "resp": e["resp"], "m": e["m"], "sizes": e["sizes"],
                                      "packets_hex": [bytes(p).hex()[:4000] for p in e["pk"]]})
    return r


def run(tier, seed, t0):
    v = core.Verdict(PROP)
    mc, cases, ncases = _cases_from_tlc(tier)
    if not mc["ok"]:
        raise core.ToolError("the wire oracle failed its own round-trip check: %s" % mc.get("error", "")[:500])
    trace = os.path.join(core.workdir("c02"), "encode.ndjson")
    summ = core.harness(["encode", "--cases", cases, "--out", trace, "--seed", seed, "--tier", tier])
    r = _validate(trace, v, "c02-trace")
    s = summ["summary"]
    lines = core.read_ndjson(trace)
    samples = []
    for e in lines[::max(1, len(lines) // 5)][:5]:
        samples.append({"kind": e["kind"], "resp": e["resp"], "entries": {k: len(x) for k, x in e["m"].items()},
                        "packet_sizes": e["sizes"],
                        "first_entry": (e["m"]["q"] + e["m"]["an"] + e["m"]["ns"] + e["m"]["ar"] + [None])[0]})
    cov = {
        "states": mc.get("distinct", 0),
        "transitions": mc.get("generated", 0),
        "traces_validated_against_impl": r["consumed"],
        "samples": samples,
        "evaluations": s["cases"],
        "distinct_nontrivial": s["distinct_nonempty"],
        "rule": "TLC enumerates every message of <= MaxEntries entries over a pool of questions / PTR / SRV / TXT / A records with "
                "shared suffixes and the labels a, b, a.b, a\\ (MCWire, %d cases, each also checks the oracle's round trip); a seeded "
                "generator adds small / medium / large (up to 4x8972 bytes) messages with arbitrary UTF-8 labels, TTLs over all of u32, "
                "records that do not fit followed by records reusing their names, single records larger than a packet, hundreds of "
                "questions, and ServiceInfo::new instance names. non-trivial = at least one entry, distinct by message" % ncases,
        "case_counts": s["counts"],
        "multi_packet_messages": s["multi_packet"],
        "checker_cmd": r["cmd"],
        "exhaustive": False,
    }
    rc = v.finish()
    core.write_evidence(PROP, tier, seed, t0, cov, ASSUME, len(v.violations))
    return rc


def replay(path, seed):
    with open(path) as f:
        rp = json.load(f)
    v = core.Verdict(PROP)
    d = core.workdir("c02")
    case = os.path.join(d, "replay_case.ndjson")
    es = []
    for sec in ("q", "an", "ns", "ar"):
        for e in rp["case"]["m"][sec]:
            e = dict(e)
            e["sec"] = sec
            es.append(e)
    with open(case, "w") as f:
        f.write(json.dumps({"resp": rp["case"]["resp"], "es": es}) + "\n")
    trace = os.path.join(d, "replay.ndjson")
    core.harness(["encode", "--cases", case, "--out", trace, "--only-cases", "1"])
    _validate(trace, v, "c02-replay")
    return v.finish()
