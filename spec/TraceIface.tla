----------------------------- MODULE TraceIface -----------------------------
(***************************************************************************)
(* Trace monitor for C18 (each interface is its own link) over a single-   *)
(* daemon trace of the driver families `multihome` and `ifcases`.           *)
(*                                                                          *)
(* Ground truth: the host's interface table (`ifs` events), the enable /    *)
(* disable selections made through the API in call order (Interfaces.tla:   *)
(* Enabled), the registrations, and what was delivered on which interface.  *)
(* The daemon learns about a change of the table at its next interface      *)
(* check, about a selection when it processes the command: between the      *)
(* change and that moment ("window": one check interval plus a second for   *)
(* a change of the table, one second - a probing cycle - for a selection)    *)
(* both the old and the new set are                                          *)
(* accepted (`may` = union), obligations only count what was enabled all     *)
(* along (`must` = intersection).  Non-blocking: failed clauses are          *)
(* collected in `viol`.                                                      *)
(***************************************************************************)
EXTENDS Interfaces, Integers, TLC, TLCExt, Json, IOUtils

Rec == ndJsonDeserialize(IOEnv.TRACE)

VARIABLES l, scen, myhost, hosts,
          sys,      \* interface table of the host
          sels,     \* selections so far (Addr selectors resolved at call time)
          snaps,    \* earlier enabled sets (and tables) still possibly in force: [en, flat, until, cmd]
          ipint,    \* interface-check interval (ms, 0 = off)
          ipsince,  \* instant from which `ipint` is certainly the period in force
          reg,      \* fnk -> [fnk, hostk, auto, addrs, live]
          inbox, cmds,
          ptrOk,    \* <<tyk, instk>> : a PTR was delivered on an interface / family that may have been enabled
          ptrIf,    \* <<instk, idx>> : ... and on which interface
          lastRes,  \* <<ch, instk>> -> [addrs : {<<ip, idx, v4>>}, removed : BOOLEAN]
          open,     \* browse channel -> lower-cased type
          owed,     \* obligations
          down,     \* shutdown requested
          viol, hits
vars == <<l, scen, myhost, hosts, sys, sels, snaps, ipint, ipsince, reg, inbox, cmds, ptrOk, ptrIf, lastRes, open, owed, down, viol, hits>>

Ev == Rec[l]
T  == Ev.t
V(tag, cond, extra) == IF cond THEN {} ELSE {<<tag, l, scen, extra>>}

(* at most 24 recorded failures per clause and kind: the set is part of the state, its size must stay bounded *)
KindOfV(v) == IF v[4] # <<>> THEN v[4][1] ELSE ""
Cap(old, new) == old \cup {v \in new : Cardinality({w \in old : w[1] = v[1] /\ KindOfV(w) = KindOfV(v)}) < 24}
Dom(f) == DOMAIN f
Put(f, k, v) == [x \in Dom(f) \cup {k} |-> IF x = k THEN v ELSE f[x]]
Range(s) == {s[i] : i \in 1..Len(s)}
MaxOf(a, b) == IF a > b THEN a ELSE b

(* ------------------------------ subnets --------------------------------- *)
Pow2(n) == CASE n = 0 -> 1 [] n = 1 -> 2 [] n = 2 -> 4 [] n = 3 -> 8 [] n = 4 -> 16
             [] n = 5 -> 32 [] n = 6 -> 64 [] n = 7 -> 128 [] OTHER -> 256
SameNet(a, b, p) ==
  /\ Len(a) = Len(b)
  /\ \A i \in 1..Len(a) :
       LET bitsBefore == 8 * (i - 1) IN
       IF p >= bitsBefore + 8 THEN a[i] = b[i]
       ELSE IF p <= bitsBefore THEN TRUE
       ELSE (a[i] \div Pow2(8 - (p - bitsBefore))) = (b[i] \div Pow2(8 - (p - bitsBefore)))

(* the addresses a registration publishes, given the enabled set `en`       *)
SvcAddrs(g, en) == IF g.auto THEN {[ip |-> a.ip, o |-> a.o, v4 |-> a.v4] : a \in en} ELSE g.addrs
(* ... those of them that belong on interface idx: inside the subnet of one *)
(* of its enabled addresses                                                  *)
LinkOn(g, en, idx) ==
  {a \in SvcAddrs(g, en) : \E e \in en : e.idx = idx /\ e.v4 = a.v4 /\ SameNet(a.o, e.o, e.p)}

(* ------------------------------ windows --------------------------------- *)
En == Enabled(sys, sels)
LiveSnaps(t) == {s \in snaps : s.cmd \/ s.until < 0 \/ t <= s.until}
MayAt(t)  == En \cup UNION {s.en : s \in LiveSnaps(t)}
MustAt(t) == {a \in En : \A s \in LiveSnaps(t) : a \in s.en}
FlatAt(t) == Flat(sys) \cup UNION {s.flat : s \in LiveSnaps(t)}
WindowEnd(t) == IF ipint = 0 THEN -1 ELSE MaxOf(t, ipsince) + ipint + 1000

(* ------------------------------ packets --------------------------------- *)
Sent == Ev.sent
Pk(i) == Sent[i]
OkPk == {i \in 1..Len(Sent) : Pk(i).ok /\ Pk(i)["if"] # 0}
RRs(m) == Range(m.an) \cup Range(m.ns) \cup Range(m.ar)
Concerns(m, g) == \E r \in RRs(m) : \/ (r.n.k = g.fnk /\ r.ty \in {"SRV", "TXT"})
                                    \/ (r.ty = "PTR" /\ r.t.k = g.fnk)
HostKs == {reg[k].hostk : k \in Dom(reg)}

(* -------------------------- commands in order --------------------------- *)
MkReg(a) == [fnk |-> a.fnl.k, hostk |-> a.hostk, auto |-> a.auto,
             addrs |-> {[ip |-> a.addrs[i].ip, o |-> a.addrs[i].o, v4 |-> a.addrs[i].v4] : i \in 1..Len(a.addrs)},
             live |-> TRUE]
ApplyCmd(s, c) ==
  CASE c.fn = "register" /\ c.res = "ok" -> [s EXCEPT !.reg = Put(s.reg, c.args.fnl.k, MkReg(c.args))]
    [] c.fn = "unregister" /\ c.res = "ok" ->
         [s EXCEPT !.reg = [k \in Dom(s.reg) |-> IF k = c.args.fnk THEN [s.reg[k] EXCEPT !.live = FALSE] ELSE s.reg[k]]]
    [] c.fn = "shutdown" /\ c.res = "ok" ->
         [s EXCEPT !.down = TRUE, !.reg = [k \in Dom(s.reg) |-> [s.reg[k] EXCEPT !.live = FALSE]]]
    [] c.fn \in {"browse", "browse_cache"} /\ c.res = "ok" -> [s EXCEPT !.open = Put(s.open, c.ch, c.args.tyk)]
    [] OTHER -> s
RECURSIVE Fold(_, _)
Fold(s, cs) == IF cs = <<>> THEN s ELSE Fold(ApplyCmd(s, Head(cs)), Tail(cs))

(* ------------------------------ iteration ------------------------------- *)
Iter ==
  /\ Ev.e = "iter"
  /\ \E may \in {MayAt(T)} : \E must \in {MustAt(T)} :
     \E s \in {Fold([reg |-> reg, open |-> open, down |-> down], cmds)} :
     LET mayIF  == IfFam(may)
         mustIF == IfFam(must)
         \* interface / family pairs that a selection disables (the table has them), or whose interface is gone altogether;
         \* the statement does not say what happens to addresses learned over a family that left an interface that stays
         flatAll == FlatAt(T)
         offIF(p) == p \notin mayIF /\ (p \in IfFam(flatAll) \/ p[1] \notin {a.idx : a \in flatAll})
         R == s.reg
         hostks == {R[k].hostk : k \in Dom(R)}
         \* --- what was delivered, and where
         resp == {j \in 1..Len(inbox) : inbox[j].ok /\ inbox[j].m.qr /\ <<inbox[j]["if"], inbox[j].v4>> \in mayIF}
         ptrs(j) == {r \in RRs(inbox[j].m) : r.ty = "PTR"}
         ptrOk2 == ptrOk \cup UNION {{<<r.n.k, r.t.k>> : r \in ptrs(j)} : j \in resp}
         ptrIf2 == ptrIf \cup UNION {{<<r.t.k, inbox[j]["if"]>> : r \in ptrs(j)} : j \in resp}
         \* --- egress: only on enabled interfaces / families.  The interface(s) a packet was composed for: the one it
         \* left on, if that may be enabled, or (IPv4, within a window) the interface that held the sending address before it moved
         \* (to whatever interface, up or down: the simulated kernel routes by the address alone)
         mcast == {i \in OkPk : Pk(i).mc}
         intended(i) == (IF <<Pk(i)["if"], Pk(i).v4>> \in mayIF THEN {Pk(i)["if"]} ELSE {})
                        \cup (IF Pk(i).v4 THEN {a.idx : a \in {x \in may : x.v4 /\ \E y \in RangeI(sys) : y.idx = Pk(i)["if"] /\ \E b \in RangeI(y.addrs) : b.ip = x.ip}} ELSE {})
         vEgress == UNION {V("C18.order", intended(i) # {},
                             <<IF Pk(i).m.qr THEN "response sent on an interface or IP family that the selections in force disable (or that is gone)"
                               ELSE "query sent on an interface or IP family that the selections in force disable (or that is gone)",
                               Pk(i)["if"], Pk(i).v4>>) : i \in mcast}
         \* --- a service shows up only where it has an address on the link, with the addresses of that link
         vWhere == UNION {UNION {V("C18.where", intended(i) = {} \/ \E idx \in intended(i) : LinkOn(R[k], may, idx) # {},
                                   <<"records of a service sent on an interface where it has no address in the subnet", k, Pk(i)["if"]>>)
                                 : k \in {x \in Dom(R) : Concerns(Pk(i).m, R[x])}} : i \in mcast}
         ownAddrRRs(i) == {x \in RRs(Pk(i).m) : x.ty \in {"A", "AAAA"} /\ x.n.k \in hostks}
         linkIps(hk, idx) == {a.ip : a \in UNION {LinkOn(R[k], may, idx) : k \in {x \in Dom(R) : R[x].hostk = hk}}}
         vAddrs == UNION {V("C18.addrs", intended(i) = {} \/ \E idx \in intended(i) : \A r \in ownAddrRRs(i) : r.rk \in linkIps(r.n.k, idx),
                            <<"address record that does not belong on the interface it was sent on", Pk(i)["if"],
                              {<<r.n.k, r.rk>> : r \in ownAddrRRs(i)}>>) : i \in {x \in OkPk : ownAddrRRs(x) # {}}}
         \* --- a new browse asks on every interface / family that is certainly enabled
         browses == {j \in 1..Len(cmds) : cmds[j].fn = "browse" /\ cmds[j].res = "ok"}
         asked(tyk) == {<<Pk(i)["if"], Pk(i).v4>> : i \in {x \in mcast : ~Pk(x).m.qr /\ \E q \in Range(Pk(x).m.q) : q.n.k = tyk /\ q.ty = "PTR"}}
         vBrowse == IF Ev.pend # 0 \/ ~Ev.alive \/ s.down THEN {}
                    ELSE UNION {V("C18.order", mustIF \subseteq asked(cmds[j].args.tyk),
                                  <<"browse query not sent on an enabled interface / IP family", mustIF \ asked(cmds[j].args.tyk)>>) : j \in browses}
         \* --- events
         evs == Ev.events
         E(kind) == {j \in 1..Len(evs) : evs[j].k = kind /\ evs[j].ch \in Dom(s.open)}
         vIgnored == UNION {V("C18.ignored", <<s.open[evs[j].ch], evs[j].fnk>> \in ptrOk2,
                               <<"instance reported although its PTR only ever arrived on a disabled interface / IP family", evs[j].fnk>>) : j \in E("ServiceFound")}
         pairs(j) == UNION {{<<evs[j].addrs[a].ip, evs[j].addrs[a].ifs[x], evs[j].addrs[a].v4>> : x \in 1..Len(evs[j].addrs[a].ifs)} : a \in 1..Len(evs[j].addrs)}
         vFamily == UNION {V("C18.family", \A p \in pairs(j) : ~offIF(<<p[2], p[3]>>),
                              <<"address reported as learned on an interface / IP family that is disabled or gone", evs[j].fnk,
                                {p \in pairs(j) : offIF(<<p[2], p[3]>>)}>>) : j \in E("ServiceResolved")}
         \* the last report per channel and instance, events applied in order
         RECURSIVE Upd(_, _)
         Upd(lr, j) == IF j > Len(evs) THEN lr
                       ELSE IF evs[j].k = "ServiceResolved" /\ evs[j].ch \in Dom(s.open)
                            THEN Upd(Put(lr, <<evs[j].ch, evs[j].fnk>>, [addrs |-> pairs(j), removed |-> FALSE]), j + 1)
                       ELSE IF evs[j].k = "ServiceRemoved" /\ evs[j].ch \in Dom(s.open)
                            THEN Upd(Put(lr, <<evs[j].ch, evs[j].fnk>>, [addrs |-> {}, removed |-> TRUE]), j + 1)
                       ELSE Upd(lr, j + 1)
         LR2 == Upd(lastRes, 1)
         stopped == {evs[j].ch : j \in {x \in 1..Len(evs) : evs[x].k = "SearchStopped"}}
         \* --- obligations
         announced(o) == \E i \in mcast : /\ Pk(i).m.qr /\ Pk(i)["if"] = o.idx /\ Pk(i).v4 = o.v4
                                          /\ \E r \in RRs(Pk(i).m) : r.ty \in {"A", "AAAA"} /\ r.rk = o.ip /\ r.ttl > 0
                                                                     /\ o.fnk \in Dom(R) /\ r.n.k = R[o.fnk].hostk
         moot(o) == CASE o.kind = "follow" -> o.fnk \notin Dom(R) \/ ~R[o.fnk].live \/ announced(o)
                      [] OTHER -> o.ch \in stopped \/ o.ch \notin Dom(s.open)
         okNow(o) == CASE o.kind = "removed" -> o.key \in Dom(LR2) /\ LR2[o.key].removed
                       [] o.kind = "stale"   -> o.key \in Dom(LR2) /\ (LR2[o.key].removed \/ ~\E p \in LR2[o.key].addrs : p[2] = o.idx)
                       [] OTHER -> FALSE
         dueNow == {o \in owed : o.due <= T /\ ~moot(o)}
         vOwed == IF s.down \/ ~Ev.alive THEN {}
                  ELSE UNION {V(IF o.kind = "follow" THEN "C18.follow" ELSE "C18.purge", okNow(o),
                                <<CASE o.kind = "follow"  -> "service with automatic addresses not announced with an address that appeared"
                                    [] o.kind = "removed" -> "instance whose PTR was learned on a vanished interface not reported removed"
                                    [] OTHER              -> "instance still reported with an address learned on a vanished interface", o>>) : o \in dueNow}
         O2 == {o \in owed : ~moot(o) /\ o.due > T /\ ~(o.kind = "removed" /\ okNow(o))}
     IN /\ viol' = Cap(viol, vEgress \cup vWhere \cup vAddrs \cup vBrowse \cup vIgnored \cup vFamily \cup vOwed)
        /\ reg' = R /\ open' = [c \in Dom(s.open) \ stopped |-> s.open[c]] /\ down' = s.down
        /\ ptrOk' = ptrOk2 /\ ptrIf' = ptrIf2 /\ lastRes' = LR2 /\ owed' = (IF s.down THEN {} ELSE O2)
        /\ hits' = hits \cup (IF mcast # {} THEN {"C18.egress"} ELSE {})
                        \cup (IF \E i \in mcast : \E k \in Dom(R) : Concerns(Pk(i).m, R[k]) THEN {"C18.where"} ELSE {})
                        \cup (IF \E i \in OkPk : \E r \in RRs(Pk(i).m) : r.ty \in {"A", "AAAA"} /\ r.n.k \in hostks THEN {"C18.addrs"} ELSE {})
                        \cup (IF browses # {} /\ Ev.pend = 0 THEN {"C18.browse"} ELSE {})
                        \cup (IF E("ServiceResolved") # {} THEN {"C18.family"} ELSE {})
                        \cup (IF E("ServiceFound") # {} THEN {"C18.ignored"} ELSE {})
                        \cup {IF o.kind = "follow" THEN "C18.follow-due" ELSE "C18.purge-due" : o \in dueNow}
                        \cup (IF \E o \in owed : o.kind = "follow" /\ announced(o) THEN {"C18.follow"} ELSE {})
                        \cup (IF \E o \in owed : o.kind = "removed" /\ okNow(o) THEN {"C18.purge"} ELSE {})
                        \cup (IF LiveSnaps(T) # {} /\ mcast # {} THEN {"C18.window"} ELSE {})
        /\ snaps' = LiveSnaps(T)
  /\ inbox' = <<>> /\ cmds' = <<>>
  /\ UNCHANGED <<scen, hosts, myhost, sys, sels, ipint, ipsince>>

(* obligations that a change of the enabled set from `old` to `new` creates  *)
FollowOwed(old, new, mayOld, end) ==
  IF end < 0 THEN {}
  ELSE {[kind |-> "follow", fnk |-> k, ip |-> a.ip, idx |-> a.idx, v4 |-> a.v4, due |-> end + 2000, key |-> <<>>, ch |-> 0]
          : k \in {x \in Dom(reg) : reg[x].auto /\ reg[x].live}, a \in new \ mayOld}

Reset == /\ Ev.e = "reset"
         /\ scen' = Ev.scen.id /\ myhost' = 0 /\ hosts' = Ev.hosts /\ sys' = <<>> /\ sels' = <<>> /\ snaps' = {} /\ ipint' = 5000 /\ ipsince' = 0
         /\ reg' = <<>> /\ inbox' = <<>> /\ cmds' = <<>> /\ ptrOk' = {} /\ ptrIf' = {} /\ lastRes' = <<>> /\ open' = <<>>
         /\ owed' = {} /\ down' = FALSE
         /\ UNCHANGED <<viol, hits>>
Spawn == /\ Ev.e = "spawn"
         /\ myhost' = Ev.host + 1
         /\ sys' = hosts[Ev.host + 1]
         /\ UNCHANGED <<scen, hosts, sels, snaps, ipint, ipsince, reg, inbox, cmds, ptrOk, ptrIf, lastRes, open, owed, down, viol, hits>>
IfsEv == /\ Ev.e = "ifs"
         /\ IF Ev.host + 1 # myhost THEN UNCHANGED <<sys, snaps, owed, lastRes>>
            ELSE LET new == Enabled(Ev.ifs, sels)
                     mayOld == MayAt(T)
                     mustOld == MustAt(T)
                     end == WindowEnd(T)
                     \* interfaces that were certainly in use and are no longer in the table
                     goneIdx == {a.idx : a \in mustOld} \ {a.idx : a \in Flat(Ev.ifs)}
                     backIdx == {a.idx : a \in Flat(Ev.ifs)}
                     keys == {k \in Dom(lastRes) : ~lastRes[k].removed /\ k[1] \in Dom(open)}
                     onlyGone(k) == /\ \E idx \in goneIdx : <<k[2], idx>> \in ptrIf
                                    /\ \A p \in ptrIf : p[1] = k[2] => p[2] \in goneIdx
                     purge == IF end < 0 THEN {}
                              ELSE {[kind |-> "removed", key |-> k, ch |-> k[1], idx |-> 0, due |-> end, fnk |-> "", ip |-> "", v4 |-> TRUE]
                                      : k \in {x \in keys : onlyGone(x)}}
                                   \cup {[kind |-> "stale", key |-> k, ch |-> k[1], idx |-> idx, due |-> end, fnk |-> "", ip |-> "", v4 |-> TRUE]
                                           : k \in {x \in keys : ~onlyGone(x)}, idx \in goneIdx}
                     \* an IP family that leaves an interface which stays: the statement does not say what becomes of the
                     \* addresses learned over it (they are neither "on an interface that disappeared" nor "disabled")
                     goneFam == {p \in IfFam(Flat(sys)) : p \notin IfFam(Flat(Ev.ifs)) /\ p[1] \in backIdx}
                 IN /\ sys' = Ev.ifs
                    /\ lastRes' = [k \in Dom(lastRes) |-> [lastRes[k] EXCEPT !.addrs = {p \in @ : <<p[2], p[3]>> \notin goneFam}]]
                    /\ snaps' = LiveSnaps(T) \cup {[en |-> En, flat |-> Flat(sys), until |-> end, cmd |-> FALSE]}
                    \* an interface that is back before the daemon looked: nothing is owed on its account;
                    \* an address that is gone again: no announcement owed
                    /\ owed' = {o \in owed : /\ (o.kind = "stale" => o.idx \notin backIdx)
                                             /\ (o.kind = "removed" => \A p \in ptrIf : p[1] = o.key[2] => p[2] \notin backIdx)
                                             /\ (o.kind = "follow" => \E a \in new : a.ip = o.ip /\ a.idx = o.idx)}
                               \cup (IF down THEN {} ELSE purge \cup FollowOwed(En, new, mayOld, end))
         /\ UNCHANGED <<scen, hosts, myhost, sels, ipint, ipsince, reg, inbox, cmds, ptrOk, ptrIf, open, down, viol, hits>>
IsSelect == Ev.e = "call" /\ Ev.fn \in {"enable_interface", "disable_interface"} /\ Ev.res = "ok"
Select == /\ IsSelect
          /\ LET s2 == Append(sels, [en |-> Ev.fn = "enable_interface", kind |-> ResolveKind(Ev.args.kind, sys)])
                 new == Enabled(sys, s2)
                 \* a disabled interface / IP family: the addresses learned there "are no longer reported" - that is all the statement
                 \* promises; the daemon forgets them without a word, so nothing is left of them to be resolved again should the
                 \* interface disappear later
                 offNow == {p \in IfFam(Flat(sys)) : p \notin IfFam(new)}
             IN /\ sels' = s2
                /\ lastRes' = [k \in Dom(lastRes) |-> [lastRes[k] EXCEPT !.addrs = {p \in @ : <<p[2], p[3]>> \notin offNow}]]
                /\ snaps' = LiveSnaps(T) \cup {[en |-> En, flat |-> Flat(sys), until |-> T + 1000, cmd |-> FALSE]}
                /\ owed' = {o \in owed : o.kind = "follow" => \E a \in new : a.ip = o.ip /\ a.idx = o.idx}
                           \cup (IF down THEN {} ELSE FollowOwed(En, new, MayAt(T), T + 1000))
          /\ cmds' = Append(cmds, Ev)
          /\ UNCHANGED <<scen, hosts, myhost, sys, ipint, ipsince, reg, inbox, ptrOk, ptrIf, open, down, viol, hits>>
IsIpInt == Ev.e = "call" /\ Ev.fn = "set_ip_check_interval" /\ Ev.res = "ok"
IpInt == /\ IsIpInt
         /\ ipint' = IF Ev.args.secs > 2000000 THEN 2000000000 ELSE 1000 * Ev.args.secs
         /\ ipsince' = IF ipint = 0 THEN T ELSE T + ipint
         /\ cmds' = Append(cmds, Ev)
         /\ UNCHANGED <<scen, hosts, myhost, sys, sels, snaps, reg, inbox, ptrOk, ptrIf, lastRes, open, owed, down, viol, hits>>
(* a service registered with automatic addressing is published with every address that is certainly enabled *)
IsAutoReg == Ev.e = "call" /\ Ev.fn = "register" /\ Ev.res = "ok" /\ Ev.args.auto
Call == /\ Ev.e = "call" /\ ~IsSelect /\ ~IsIpInt
        /\ cmds' = Append(cmds, Ev)
        /\ owed' = IF IsAutoReg /\ ~down
                   THEN owed \cup {[kind |-> "follow", fnk |-> Ev.args.fnl.k, ip |-> a.ip, idx |-> a.idx, v4 |-> a.v4, due |-> T + 3000, key |-> <<>>, ch |-> 0]
                                     : a \in MustAt(T)}
                   ELSE owed
        /\ UNCHANGED <<scen, hosts, myhost, sys, sels, snaps, ipint, ipsince, reg, inbox, ptrOk, ptrIf, lastRes, open, down, viol, hits>>
Deliver == /\ Ev.e = "deliver"
           /\ inbox' = Append(inbox, Ev)
           /\ UNCHANGED <<scen, hosts, myhost, sys, sels, snaps, ipint, ipsince, reg, cmds, ptrOk, ptrIf, lastRes, open, owed, down, viol, hits>>
Skip == /\ Ev.e \in {"adv", "dead", "note", "end", "names"}
        /\ UNCHANGED <<scen, hosts, myhost, sys, sels, snaps, ipint, ipsince, reg, inbox, cmds, ptrOk, ptrIf, lastRes, open, owed, down, viol, hits>>

Init == /\ l = 1 /\ scen = 0 /\ myhost = 0 /\ hosts = <<>> /\ sys = <<>> /\ sels = <<>> /\ snaps = {} /\ ipint = 5000 /\ ipsince = 0
        /\ reg = <<>> /\ inbox = <<>> /\ cmds = <<>> /\ ptrOk = {} /\ ptrIf = {} /\ lastRes = <<>> /\ open = <<>>
        /\ owed = {} /\ down = FALSE /\ viol = {} /\ hits = {}
Next == l <= Len(Rec) /\ l' = l + 1 /\ (Reset \/ Spawn \/ IfsEv \/ Select \/ IpInt \/ Call \/ Deliver \/ Skip \/ Iter)
Spec == Init /\ [][Next]_vars

Track == TLCSet(1, viol) /\ TLCSet(2, hits)
Accepted ==
  LET consumed == TLCGet("stats").diameter - 1 IN
  /\ PrintT(<<"RESULT", ToJson([consumed |-> consumed, total |-> Len(Rec), viol |-> TLCGet(1), hits |-> TLCGet(2)])>>)
  /\ consumed = Len(Rec)
  /\ TLCGet(1) = {}
=============================================================================
