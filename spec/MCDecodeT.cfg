SPECIFICATION Spec
CONSTANTS
  PtrRule = "decreasing"
  CharStrGuard = TRUE
  Alphabet = {0, 1, 2, 3, 4, 64, 65, 192}
  MaxLen = 6
INVARIANTS TypeOK Bounded StepBound InsideData AgreesWithOracle
PROPERTY Terminates
CHECK_DEADLOCK FALSE
