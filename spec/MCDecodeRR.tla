---------------------------- MODULE MCDecodeRR ----------------------------
(***************************************************************************)
(* Exhaustive check of the RDATA readers: one resource record with owner   *)
(* name root, every supported type, every RDLENGTH claim (too short, exact, *)
(* too long) and every RDATA byte string over Alphabet up to MaxLen.  The   *)
(* transcription must never reach "oob" (= an unguarded index in the code)  *)
(* or "hang".                                                               *)
(***************************************************************************)
EXTENDS DecodeMech, TLC, Json
CONSTANTS Alphabet, MaxLen, EmitMax
VARIABLES data, ty
vars == <<data, ty>>
Strings == UNION {[1..n -> Alphabet] : n \in 0..MaxLen}
Types == {TA, TCNAME, TPTR, THINFO, TTXT, TAAAA, TSRV, TNSEC, 99}
Init == /\ ty \in Types
        /\ \E tail \in Strings, rl \in 0..(MaxLen + 1) :
             data = <<0>> \o B16(ty) \o <<0, 1>> \o <<0, 0, 0, 9>> \o B16(rl) \o tail
Next == UNCHANGED vars
Spec == Init /\ [][Next]_vars
R == MechRR(data, 0, TRUE)
NoPanic == R.pc # "oob"
NoHang  == R.pc # "hang"
InsideRdata == R.pc = "ok" => R.next <= Len(data)
AgreesWithOracle ==
  R.pc = "ok" => LET o == RdRR(data, 0) IN o.ok /\ o.name = R.name /\ o.ty = R.ty /\ o.next = R.next
(* spec -> implementation: the record behind a response header with ANCOUNT 1, as a datagram for the real decoder *)
Header == <<0, 0, 132, 0, 0, 0, 0, 1, 0, 0, 0, 0>>
EmitCase == (Len(data) <= 11 + EmitMax) => PrintT(<<"CASE", ToJson([b |-> Header \o data])>>)
=============================================================================
