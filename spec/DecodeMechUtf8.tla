--------------------------- MODULE DecodeMechUtf8 ---------------------------
(* UTF-8 validity exactly as core::str::from_utf8 decides it. *)
EXTENDS Naturals, Sequences

Cont(x) == x >= 128 /\ x <= 191
RECURSIVE Utf8From(_, _)
Utf8From(s, i) ==                      \* i is a 1-based index into s
  IF i > Len(s) THEN TRUE
  ELSE LET c == s[i]
           has(n) == i + n <= Len(s)
       IN
       IF c <= 127 THEN Utf8From(s, i + 1)
       ELSE IF c >= 194 /\ c <= 223 THEN has(1) /\ Cont(s[i+1]) /\ Utf8From(s, i + 2)
       ELSE IF c = 224 THEN has(2) /\ s[i+1] >= 160 /\ s[i+1] <= 191 /\ Cont(s[i+2]) /\ Utf8From(s, i + 3)
       ELSE IF (c >= 225 /\ c <= 236) \/ c = 238 \/ c = 239
            THEN has(2) /\ Cont(s[i+1]) /\ Cont(s[i+2]) /\ Utf8From(s, i + 3)
       ELSE IF c = 237 THEN has(2) /\ s[i+1] >= 128 /\ s[i+1] <= 159 /\ Cont(s[i+2]) /\ Utf8From(s, i + 3)
       ELSE IF c = 240 THEN has(3) /\ s[i+1] >= 144 /\ s[i+1] <= 191 /\ Cont(s[i+2]) /\ Cont(s[i+3]) /\ Utf8From(s, i + 4)
       ELSE IF c >= 241 /\ c <= 243 THEN has(3) /\ Cont(s[i+1]) /\ Cont(s[i+2]) /\ Cont(s[i+3]) /\ Utf8From(s, i + 4)
       ELSE IF c = 244 THEN has(3) /\ s[i+1] >= 128 /\ s[i+1] <= 143 /\ Cont(s[i+2]) /\ Cont(s[i+3]) /\ Utf8From(s, i + 4)
       ELSE FALSE
Utf8Ok(s) == Utf8From(s, 1)

=============================================================================
