----------------------------- MODULE TraceBrowse -----------------------------
(***************************************************************************)
(* Trace monitor for the querier-side properties over a single-daemon      *)
(* trace (sim.rs): C03 (resolved events show live received data), C04      *)
(* (found / resolved when the records have arrived), C05 (removed on time   *)
(* and only when true), C13 (channel protocol, stop), C17 (hostname         *)
(* resolution events).  Ground truth: Heard.tla.  Non-blocking (`viol`).     *)
(*                                                                         *)
(* Order inside one loop iteration of the daemon: datagrams first, then     *)
(* commands, then time-driven work; the monitor applies the inbox and the    *)
(* commands to the ground truth and then judges the iteration's events in    *)
(* order, and finally the invariants that must hold whenever the daemon     *)
(* parks ("what the client has been told matches what is live").            *)
(***************************************************************************)
EXTENDS Heard, Integers, TLC, TLCExt, Json, IOUtils

Rec == ndJsonDeserialize(IOEnv.TRACE)

VARIABLES l, scen,
          tab,      \* Heard table
          chan,     \* channel id -> record (see NewBrowse / NewHost)
          cur,      \* search key -> channel id of the search currently bound to it ("b:"type / "h:"host)
          owedStop, \* channels that are owed a SearchStopped
          down,     \* shutdown was called
          sched,    \* search key -> [next, gap] : the doubling query schedule of an open search (C19)
          fu,       \* instance key -> [n, last] : follow-up queries of a found, unresolved instance (C04)
          lack,     \* instance key -> [kind, since, asked] : what a found, unresolved instance lacks and whether it was asked for (C04.ask)
          verifs,   \* verify calls: {[fnk, hosts, at]}
          lastT,    \* time of the previous iteration
          ifs,      \* interface table of the daemon's host
          arrs,     \* expiry instants of all record arrivals whose lifetime has not passed yet (C20.timers-popped)
          inbox, cmds, viol, hits,
          streak    \* consecutive idle iterations whose requested wake-up is at most 1 ms ahead (C12.nospin)
vars == <<streak, l, scen, tab, chan, cur, owedStop, down, sched, fu, lack, verifs, lastT, ifs, arrs, inbox, cmds, viol, hits>>

Ev == Rec[l]
T  == Ev.t
V(tag, cond, extra) == IF cond THEN {} ELSE {<<tag, l, scen, extra>>}

(* at most 24 recorded failures per clause and kind: the set is part of the state, its size must stay bounded *)
KindOfV(v) == IF v[4] # <<>> THEN v[4][1] ELSE ""
Cap(old, new) == old \cup {v \in new : Cardinality({w \in old : w[1] = v[1] /\ KindOfV(w) = KindOfV(v)}) < 24}
Dom(f) == DOMAIN f
Put(f, k, v) == [x \in Dom(f) \cup {k} |-> IF x = k THEN v ELSE f[x]]
Del(f, ks) == [x \in Dom(f) \ ks |-> f[x]]
Range(s) == {s[i] : i \in 1..Len(s)}

Present(t, id, at) == id \in Dom(t) /\ at < t[id].exp

(* ------------------------------ searches -------------------------------- *)
BrowsedU == {chan[c].ty : c \in {x \in Dom(chan) : chan[x].kind = "browse" /\ cur["b:" \o chan[x].key] = x /\ chan[x].bound}}
ResolvingK == {chan[c].key : c \in {x \in Dom(chan) : chan[x].kind = "host" /\ chan[x].bound}}

ForUs(m) ==
  LET ptrs == {i \in 1..Len(m.an) : m.an[i].ty = "PTR"} IN
  \/ ptrs = {}
  \/ \E i \in ptrs : m.an[i].n.u \in BrowsedU
  \/ \E i \in 1..Len(m.an) : m.an[i].ty \in {"A", "AAAA"} /\ m.an[i].n.k \in ResolvingK

(* all records of the inbox into the table, in arrival order                 *)
RECURSIVE Ingest(_, _)
Ingest(t, ds) ==
  IF ds = <<>> THEN t
  ELSE LET d == Head(ds) IN
       IF d.ok /\ d.m.qr
       THEN LET isfu == ForUs(d.m) IN
            Ingest(ArriveAll(ArriveAll(ArriveAll(t, d.m.an, d["if"], d.t, isfu), d.m.ns, d["if"], d.t, isfu),
                             d.m.ar, d["if"], d.t, isfu), Tail(ds))
       ELSE Ingest(t, Tail(ds))

(* ------------------------------ commands -------------------------------- *)
NewBrowse(c) == [kind |-> "browse", ty |-> c.args.ty, key |-> c.args.tyk, st |-> "fresh", bound |-> TRUE,
                 cacheonly |-> c.fn = "browse_cache", found |-> {}, ever |-> {}, resolved |-> {},
                 removedAt |-> <<>>, foundAt |-> <<>>, at |-> T, stoppedAt |-> 0]
NewHost(c) == [kind |-> "host", ty |-> c.args.host, key |-> c.args.hostk, st |-> "fresh", bound |-> TRUE,
               cacheonly |-> FALSE, found |-> {}, ever |-> {}, resolved |-> {}, removedAt |-> <<>>, foundAt |-> <<>>, at |-> T,
               stoppedAt |-> 0, deadline |-> IF c.args.timeout >= 0 THEN T + c.args.timeout ELSE -1]

(* s : [tab, chan, cur, owedStop, down]                                      *)
ApplyCmd(s, c) ==
  CASE c.fn \in {"browse", "browse_cache"} /\ c.res = "ok" ->
         LET k == "b:" \o c.args.tyk
             old == IF k \in Dom(s.cur) THEN {s.cur[k]} ELSE {} IN
         [s EXCEPT !.chan = Put([x \in Dom(s.chan) |-> IF x \in old THEN [s.chan[x] EXCEPT !.bound = FALSE] ELSE s.chan[x]],
                                c.ch, NewBrowse(c)),
                   !.cur = Put(s.cur, k, c.ch),
                   \* browsing a type again REPLACES the schedule (C19)
                   !.sched = IF c.fn = "browse_cache" THEN Del(s.sched, {k}) ELSE Put(s.sched, k, [next |-> T, gap |-> 1000, until |-> -1]),
                   !.owedStop = s.owedStop \cup (IF c.fn = "browse_cache" THEN {c.ch} ELSE {})]
    [] c.fn = "stop_browse" /\ c.res = "ok" ->
         LET k == "b:" \o c.args.tyk IN
         IF k \in Dom(s.cur) /\ s.chan[s.cur[k]].bound /\ s.chan[s.cur[k]].ty = c.args.ty
         THEN [s EXCEPT !.tab = Forget(s.tab, c.args.tyk),
                        !.sched = Del(s.sched, {k}),
                        !.owedStop = s.owedStop \cup {s.cur[k]},
                        !.chan = [x \in Dom(s.chan) |-> IF x = s.cur[k] THEN [s.chan[x] EXCEPT !.bound = FALSE, !.stoppedAt = T] ELSE s.chan[x]]]
         ELSE s
    [] c.fn = "resolve_hostname" /\ c.res = "ok" ->
         LET k == "h:" \o c.args.hostk
             old == IF k \in Dom(s.cur) THEN {s.cur[k]} ELSE {} IN
         [s EXCEPT !.chan = Put([x \in Dom(s.chan) |-> IF x \in old THEN [s.chan[x] EXCEPT !.bound = FALSE] ELSE s.chan[x]],
                                c.ch, NewHost(c)),
                   !.sched = Put(s.sched, k, [next |-> T, gap |-> 1000, until |-> IF c.args.timeout >= 0 THEN T + c.args.timeout ELSE -1]),
                   !.cur = Put(s.cur, k, c.ch)]
    [] c.fn = "stop_resolve_hostname" /\ c.res = "ok" ->
         LET k == "h:" \o c.args.hostk IN
         IF k \in Dom(s.cur) /\ s.chan[s.cur[k]].bound
         THEN [s EXCEPT !.owedStop = s.owedStop \cup {s.cur[k]},
                        !.sched = Del(s.sched, {k}),
                        !.chan = [x \in Dom(s.chan) |-> IF x = s.cur[k] THEN [s.chan[x] EXCEPT !.bound = FALSE, !.stoppedAt = T] ELSE s.chan[x]]]
         ELSE s
    [] c.fn = "verify" /\ c.res = "ok" ->
         [s EXCEPT !.tab = Shorten(s.tab, c.args.fnk, T + c.args.timeout, T),
                   !.verifs = s.verifs \cup {[fnk |-> c.args.fnk,
                                               hosts |-> {s.tab[id].tk : id \in {x \in Dom(s.tab) : x[1] = "SRV" /\ x[2] = c.args.fnk /\ T < s.tab[x].exp /\ s.tab[x].forus}},
                                               \* (what the daemon MAY ask for: the hosts of any SRV it may hold for the instance)
                                               anyhosts |-> {s.tab[id].tk : id \in {x \in Dom(s.tab) : x[1] = "SRV" /\ x[2] = c.args.fnk}},
                                               at |-> T]}]
    [] c.fn = "shutdown" /\ c.res = "ok" ->
         [s EXCEPT !.down = TRUE, !.sched = <<>>,
                   !.owedStop = s.owedStop \cup {x \in Dom(s.chan) : s.chan[x].bound /\ s.chan[x].kind \in {"browse", "host"}},
                   !.chan = [x \in Dom(s.chan) |-> [s.chan[x] EXCEPT !.bound = FALSE, !.stoppedAt = T]]]
    [] OTHER -> s

RECURSIVE FoldCmd(_, _)
FoldCmd(s, cs) == IF cs = <<>> THEN s ELSE FoldCmd(ApplyCmd(s, Head(cs)), Tail(cs))

(* ------------------------------- events --------------------------------- *)
LiveAt(t, tyk, fnk, at) ==
  /\ PtrIds(t, tyk, fnk, at) # {}
  /\ \E id \in SrvIds(t, fnk, at) : AddrIds(t, t[id].tk, at) # {}

(* the same, counting only records the daemon had to keep (received in packets that were for it) *)
LiveForUsAt(t, tyk, fnk, at) ==
  /\ \E p \in PtrIds(t, tyk, fnk, at) : t[p].forus
  /\ \E id \in SrvIds(t, fnk, at) : t[id].forus /\ \E a \in AddrIds(t, t[id].tk, at) : t[a].forus /\ at < t[a].vexp

(* live by TTL alone (what a verify request shortened does not count), for-us records only *)
NatExp(e) == e.at + LifeMs(e.ttl)
NaturalLive(t, tyk, fnk, at) ==
  /\ \E p \in Dom(t) : p[1] = "PTR" /\ p[2] = tyk /\ t[p].tk = fnk /\ t[p].forus /\ t[p].ttl # 0 /\ at < t[p].exp
  /\ \E id \in Dom(t) : /\ id[1] = "SRV" /\ id[2] = fnk /\ t[id].forus /\ t[id].ttl # 0 /\ at < NatExp(t[id])
                         /\ \E a \in Dom(t) : IsAddrTy(a[1]) /\ a[2] = t[id].tk /\ t[a].forus /\ t[a].ttl # 0 /\ at < NatExp(t[a])
(* the instant from which the instance is no longer described by live records: the first of its PTR, its last SRV, *)
(* the last address of its hosts to go (a large number while nothing of a kind was ever heard)                     *)
MaxOr(S, d) == IF S = {} THEN d ELSE CHOOSE x \in S : \A y \in S : y <= x
MinOf3(a, b, c) == IF a <= b /\ a <= c THEN a ELSE IF b <= c THEN b ELSE c
(* SRV and addresses count only for an instance that was reported resolved.  A kind counts once a record of it was      *)
(* received in a packet for us; from then on every record of the kind counts, also one from a packet that was not for   *)
(* us: the daemon may keep such a copy (it does when it already holds records of that name), so the instance may live   *)
(* as long as the longest-lived of them                                                                                 *)
GoneAt(t, tyk, fnk, wasResolved) ==
  LET onlyFu(S) == {x \in S : t[x].forus}
      End(S) == IF onlyFu(S) = {} THEN 2000000000 ELSE MaxOr({t[x].exp : x \in S}, 2000000000)
      ptrEnd == End({x \in Dom(t) : x[1] = "PTR" /\ x[2] = tyk /\ t[x].tk = fnk})
      srvs == {x \in Dom(t) : x[1] = "SRV" /\ x[2] = fnk}
      srvEnd == End(srvs)
      hosts == {t[x].tk : x \in srvs}
      hostsFu == {t[x].tk : x \in onlyFu(srvs)}
      adrEnd == IF onlyFu({x \in Dom(t) : IsAddrTy(x[1]) /\ x[2] \in hostsFu}) = {} THEN 2000000000
                ELSE MaxOr({t[a].exp : a \in {x \in Dom(t) : IsAddrTy(x[1]) /\ x[2] \in hosts}}, 2000000000)
  IN IF wasResolved THEN MinOf3(ptrEnd, srvEnd, adrEnd) ELSE ptrEnd

(* a record of the instance or of one of its hosts ran out (by TTL, cache-flush or an earlier verify request) since the  *)
(* previous iteration: the daemon then looks at the instance again                                                      *)
RanOutSince(t, tyk, fnk, since, upto) ==
  LET hosts == {t[x].tk : x \in {y \in Dom(t) : y[1] = "SRV" /\ y[2] = fnk}}
      end(id) == IF t[id].vexp < t[id].exp THEN t[id].vexp ELSE t[id].exp
  IN \E id \in Dom(t) : /\ since < end(id) /\ end(id) <= upto
                         /\ \/ (id[1] = "PTR" /\ id[2] = tyk /\ t[id].tk = fnk)
                            \/ (id[1] \in {"SRV", "TXT"} /\ id[2] = fnk)
                            \/ (IsAddrTy(id[1]) /\ id[2] \in hosts)

RelatedNewer(t, tyk, fnk, hostk, since) ==
  \E id \in Dom(t) : /\ t[id].at >= since
                     /\ \/ (id[1] = "PTR" /\ id[2] = tyk /\ t[id].tk = fnk)
                        \/ (id[1] \in {"SRV", "TXT"} /\ id[2] = fnk)
                        \/ (IsAddrTy(id[1]) /\ id[2] = hostk)

AddrsOf(e) == Range(e.addrs)

(* s : [chan, owedStop, v] ; e : one event                                   *)
StepEv(s, t, e) ==
  IF e.ch \notin Dom(s.chan) THEN s
  ELSE
  LET c == s.chan[e.ch]
      upd(c2, vs) == [s EXCEPT !.chan = Put(s.chan, e.ch, c2), !.v = s.v \cup vs]
      afterStop == V("C13.last", ~(c.st = "stopped" /\ ~c.cacheonly), <<"event after SearchStopped", e.k, e.ch>>)
                   \cup V("C17.final", ~(c.kind = "host" /\ c.st = "stopped"), <<"event on a hostname-resolution channel after its SearchStopped (stop or timeout)", e.k, e.ch>>)
      first == V("C13.first", c.st # "fresh" \/ e.k = "SearchStarted", <<"first event is not SearchStarted", e.k>>)
  IN
  IF c.kind = "browse" THEN
    CASE e.k = "SearchStarted" -> upd([c EXCEPT !.st = IF c.st = "fresh" THEN "started" ELSE c.st], afterStop)
      [] e.k = "ServiceFound" ->
           upd([c EXCEPT !.found = c.found \cup {e.fnk}, !.ever = c.ever \cup {e.fnk}, !.foundAt = Put(c.foundAt, e.fnk, T)],
               afterStop \cup first
               \cup V("C03.found-live", PtrIds(t, c.key, e.fnk, T) # {}, <<"ServiceFound without a live PTR", e.fnk>>)
               \cup V("C04.labels", e.ty = c.ty, <<"type of the event", e.ty, c.ty>>))
      [] e.k = "ServiceResolved" ->
           upd([c EXCEPT !.resolved = c.resolved \cup {e.fnk}, !.found = c.found \cup {e.fnk},
                         !.removedAt = Del(c.removedAt, {e.fnk})],
               afterStop \cup first
               \cup V("C13.found-first", e.fnk \in c.ever,
                      <<IF \E y \in Dom(s.chan) : y # e.ch /\ s.chan[y].kind = "browse" /\ s.chan[y].key = c.key /\ s.chan[y].at < c.at /\ e.fnk \in s.chan[y].ever
                        THEN "instance already reported on an earlier channel of this type is resolved on the channel that replaced it without ServiceFound (its PTR was in its last second when the type was browsed again)"
                        ELSE "ServiceResolved before ServiceFound", e.fnk>>)
               \cup V("C03.ptr", PtrIds(t, c.key, e.fnk, T) # {}, <<"resolved without a live PTR", e.fnk>>)
               \cup V("C03.srv", \E id \in SrvIds(t, e.fnk, T) : t[id].tk = e.hostk /\ t[id].port = e.port /\ t[id].tu = e.host,
                      <<"host/port not from a live SRV", e.fnk, e.host, e.port>>)
               \cup V("C03.addr", /\ e.host # "" /\ Len(e.addrs) > 0
                                  /\ \A x \in AddrsOf(e) : /\ Len(x.ifs) > 0
                                                           /\ \A i \in Range(x.ifs) : \E id \in AddrIds(t, e.hostk, T) : t[id].ip = x.ip /\ t[id].ifx = i,
                      <<"address not from a live record heard on that interface", e.fnk, e.addrs>>)
               \cup V("C03.txt", Len(e.txt) = 0 \/ \E id \in TxtIds(t, e.fnk, T) : t[id].txtd = e.txt,
                      <<"TXT not from a live record", e.fnk, e.txt>>)
               \cup (IF e.fnk \in Dom(c.removedAt)
                     THEN V("C05.resurrect", RelatedNewer(t, c.key, e.fnk, e.hostk, c.removedAt[e.fnk]),
                            <<"resolved again after removal without new records", e.fnk>>)
                     ELSE {}))
      [] e.k = "ServiceRemoved" ->
           upd([c EXCEPT !.found = c.found \ {e.fnk}, !.resolved = c.resolved \ {e.fnk},
                         !.removedAt = Put(c.removedAt, e.fnk, T)],
               afterStop \cup first
               \cup V("C05.premature", ~LiveForUsAt(t, c.key, e.fnk, T + 1000), <<"removed while PTR, SRV and address are live", e.fnk>>)
               \* a verify request takes the instance away at its deadline, not before (no TTL arithmetic, no grace involved)
               \* (in an iteration without arrivals: when records arrive, the daemon looks at the cache again and treats what has
               \* less than a second left as gone already - the one-second slack of the other clauses)
               \* (nor when another record of the instance ran out in this step - here: an address that an earlier verify request had
               \* shortened - for the same reason)
               \cup V("C05.verify-early", inbox # <<>> \/ RanOutSince(t, c.key, e.fnk, lastT, T) \/ ~(NaturalLive(t, c.key, e.fnk, T + 1000) /\ \E id \in Dom(t) : id[1] = "SRV" /\ id[2] = e.fnk /\ t[id].vdl > T),
                      <<"removed before the deadline of the verify request", e.fnk, T>>)
               \* delivered when due (goodbye + 1 s, expiry, verify deadline), plus at most one scheduling step
               \* (counted from the moment it was last reported found, if that is later)
               \* (the first removal of an instance that is reported found; counted from the moment it was found, if that is later)
               \cup V("C05.late", e.fnk \notin c.found \/ T <= GoneAt(t, c.key, e.fnk, e.fnk \in c.resolved) + 1500 \/ (e.fnk \in Dom(c.foundAt) /\ T <= c.foundAt[e.fnk] + 1500),
                      <<IF \E y \in Dom(s.chan) : y # e.ch /\ s.chan[y].kind = "browse" /\ s.chan[y].key # c.key /\ e.fnk \in s.chan[y].ever
                        THEN "instance browsed under its type and under a subtype: when its SRV or last address is gone the removal is reported on one of the two channels only (the other hears of it when the next record runs out)"
                        ELSE "ServiceRemoved later than one second after the instance was gone", e.fnk, GoneAt(t, c.key, e.fnk, e.fnk \in c.resolved), T>>))
      [] e.k = "SearchStopped" ->
           [s EXCEPT !.chan = Put(s.chan, e.ch, [c EXCEPT !.st = "stopped"]),
                     !.owedStop = s.owedStop \ {e.ch},
                     !.v = s.v \cup afterStop \cup first
                           \cup V("C13.stop-owed", e.ch \in s.owedStop, <<"SearchStopped that nobody asked for", e.ch>>)]
      [] OTHER -> s
  ELSE IF c.kind = "host" THEN
    CASE e.k = "SearchStarted" -> upd([c EXCEPT !.st = IF c.st = "fresh" THEN "started" ELSE c.st], afterStop)
      [] e.k = "AddressesFound" ->
           upd([c EXCEPT !.found = c.found \cup UNION {{<<x.ip, i>> : i \in Range(x.ifs)} : x \in AddrsOf(e)},
                         !.ever = c.ever \cup UNION {{<<x.ip, i>> : i \in Range(x.ifs)} : x \in AddrsOf(e)}],
               afterStop \cup first
               \cup V("C17.found-name", e.hostk = c.key, <<"event for another host", e.host, c.key>>)
               \cup V("C17.found", /\ Len(e.addrs) > 0
                                   /\ \A x \in AddrsOf(e) : \A i \in Range(x.ifs) :
                                         \E id \in Dom(t) : /\ IsAddrTy(id[1]) /\ id[2] = c.key /\ t[id].ip = x.ip /\ t[id].ifx = i
                                                            /\ T <= t[id].exp,     \* "until T + t and never after": at the instant itself it may still be shown
                      <<"address not received (or expired) for that host", e.addrs>>))
      [] e.k = "AddressesRemoved" ->
           upd([c EXCEPT !.found = c.found \ UNION {{<<x.ip, i>> : i \in Range(x.ifs)} : x \in AddrsOf(e)}],
               afterStop \cup first
               \cup V("C17.removed-name", e.hostk = c.key, <<"event for another host", e.host, c.key>>)
               \cup UNION {UNION {
                      LET live == {id \in Dom(t) : /\ IsAddrTy(id[1]) /\ id[2] = c.key /\ t[id].ip = x.ip /\ t[id].ifx = i
                                                   /\ T + 1000 < t[id].exp /\ T + 1000 < t[id].vexp /\ t[id].ttl # 0}
                      IN V("C17.removed", live = {},
                           <<IF \E id \in live : t[id].u # e.host
                             THEN "address reported removed while its record, last refreshed under another letter case of the host name, is live"
                             ELSE "address reported removed while its record is live", x.ip, e.host>>)
                      : i \in Range(x.ifs)} : x \in AddrsOf(e)})
      [] e.k = "SearchTimeout" ->
           [s EXCEPT !.chan = Put(s.chan, e.ch, [c EXCEPT !.st = "timedout", !.bound = FALSE, !.stoppedAt = T]),
                     !.owedStop = s.owedStop \cup {e.ch},
                     !.v = s.v \cup afterStop \cup first
                           \cup V("C17.timeout", c.deadline >= 0 /\ T >= c.deadline, <<"SearchTimeout before the deadline", c.deadline, T>>)]
      [] e.k = "SearchStopped" ->
           [s EXCEPT !.chan = Put(s.chan, e.ch, [c EXCEPT !.st = "stopped"]),
                     !.owedStop = s.owedStop \ {e.ch},
                     !.v = s.v \cup afterStop \cup first
                           \cup V("C13.stop-owed", e.ch \in s.owedStop, <<"SearchStopped that nobody asked for", e.ch>>)]
      [] OTHER -> s
  ELSE s

RECURSIVE FoldEv(_, _, _)
FoldEv(s, t, es) == IF es = <<>> THEN s ELSE FoldEv(StepEv(s, t, Head(es)), t, Tail(es))

(* --------------------- invariants whenever the daemon parks -------------- *)
(* instances whose full description arrived in packets that were for us and  *)
(* is live for more than one more second                                     *)
CompleteForUs(t, tyk, at) ==
  {t[p].tk : p \in {id \in Dom(t) : /\ id[1] = "PTR" /\ id[2] = tyk /\ t[id].forus /\ t[id].ttl # 0 /\ at + 1000 < t[id].exp
                                    /\ \E s \in Dom(t) : /\ s[1] = "SRV" /\ s[2] = t[id].tk /\ t[s].forus /\ t[s].ttl # 0 /\ at + 1000 < t[s].exp
                                                         /\ \E a \in Dom(t) : /\ IsAddrTy(a[1]) /\ a[2] = t[s].tk /\ t[a].forus
                                                                              /\ t[a].ttl # 0 /\ at + 1000 < t[a].exp /\ at + 1000 < t[a].vexp
                                    /\ \E x \in Dom(t) : x[1] = "TXT" /\ x[2] = t[id].tk /\ t[x].forus /\ t[x].ttl # 0 /\ at + 1000 < t[x].exp}}

(* C04, "in any order": the first TXT record ever heard for an instance arrives (for us, not empty) while everything   *)
(* else that describes the instance is live: a ServiceResolved carrying it is on the channel by the end of the iteration *)
(* (an instance is reported resolved without its TXT as soon as host and address are known; the TXT then completes it)    *)
TxtCompletes(chOld, ch, tOld, tNew) ==
  UNION {
    LET c == ch[x] IN
    IF c.kind = "browse" /\ c.bound /\ c.st = "started" /\ ~c.cacheonly /\ x \in Dom(chOld) /\ chOld[x].st = "started"
    THEN UNION {V("C04.resolve-txt",
                  \E j \in 1..Len(Ev.events) : /\ Ev.events[j].k = "ServiceResolved" /\ Ev.events[j].ch = x
                                                /\ Ev.events[j].fnk = id[2] /\ Ev.events[j].txt = tNew[id].txtd,
                  <<"the TXT record of an instance arrived after everything else (the instance was reported resolved without it): no ServiceResolved carries it", id[2]>>)
                : id \in {i \in Dom(tNew) : /\ i[1] = "TXT" /\ tNew[i].at > lastT /\ tNew[i].forus /\ tNew[i].ttl # 0 /\ tNew[i].txtd # <<>>
                                             /\ ~(\E o \in Dom(tOld) : o[1] = "TXT" /\ o[2] = i[2])
                                             /\ ~(\E o2 \in Dom(tNew) : o2[1] = "TXT" /\ o2[2] = i[2] /\ o2 # i)
                                             /\ i[2] \in CompleteForUs(tNew, c.key, T)}}
    ELSE {} : x \in Dom(ch)}

ParkInvariants(ch, t) ==
  UNION {
    LET c == ch[x] IN
    IF c.kind = "browse" /\ c.bound /\ c.st = "started" /\ ~c.cacheonly THEN
         V("C04.resolve", CompleteForUs(t, c.key, T) \subseteq c.resolved,
           <<IF \A f \in CompleteForUs(t, c.key, T) \ c.resolved : \E y \in Dom(ch) : y # x /\ ch[y].kind = "browse" /\ ch[y].key = c.key /\ ch[y].at < c.at /\ f \in ch[y].ever
             THEN "instance already reported on an earlier channel of this type is not reported on the channel that replaced it (its PTR was in its last second when the type was browsed again; later copies count as refreshes)"
             ELSE IF \A f \in CompleteForUs(t, c.key, T) \ c.resolved : f \in Dom(c.removedAt)
             THEN "instance that was reported removed while its PTR stayed cached is not reported again when copies of the same records arrive"
             ELSE "described by live received records but not resolved", CompleteForUs(t, c.key, T) \ c.resolved>>)
         \cup V("C05.expiry", \A f \in c.found : \E id \in Dom(t) : id[1] = "PTR" /\ id[2] = c.key /\ t[id].tk = f /\ T < t[id].exp,
                <<"PTR gone but no ServiceRemoved", {f \in c.found : ~\E id \in Dom(t) : id[1] = "PTR" /\ id[2] = c.key /\ t[id].tk = f /\ T < t[id].exp}>>)
         \* (while the PTR itself is in its last second the removal may come with the PTR's expiry)
         \cup V("C05.expiry-srv", \A f \in {g \in c.resolved : \E p \in Dom(t) : p[1] = "PTR" /\ p[2] = c.key /\ t[p].tk = g /\ T + 1000 < t[p].exp} :
                                     \E s \in Dom(t) : /\ s[1] = "SRV" /\ s[2] = f /\ T < t[s].exp
                                                                       /\ \E a \in Dom(t) : IsAddrTy(a[1]) /\ a[2] = t[s].tk /\ T < t[a].exp,
                <<IF \A f \in {g \in c.resolved : ~\E s \in Dom(t) : /\ s[1] = "SRV" /\ s[2] = g /\ T < t[s].exp
                                                                  /\ \E a \in Dom(t) : IsAddrTy(a[1]) /\ a[2] = t[s].tk /\ T < t[a].exp} :
                        \E y \in Dom(ch) : y # x /\ ch[y].kind = "browse" /\ ch[y].bound /\ ch[y].key # c.key /\ f \in ch[y].ever
                  THEN "instance browsed under its type and under a subtype: when its SRV or last address is gone the removal is reported on one of the two channels only"
                  ELSE IF \A f \in {g \in c.resolved : ~\E s \in Dom(t) : /\ s[1] = "SRV" /\ s[2] = g /\ T < t[s].exp
                                                                  /\ \E a \in Dom(t) : IsAddrTy(a[1]) /\ a[2] = t[s].tk /\ T < t[a].exp} :
                        \E y \in Dom(ch) : y # x /\ ch[y].kind = "browse" /\ ~ch[y].bound /\ ch[y].key # c.key /\ f \in ch[y].ever /\ ch[y].stoppedAt >= c.at
                  THEN "instance browsed under its type and under a subtype, one of the two searches stopped: stop_browse takes the instance's records along, the other channel is told nothing"
                  ELSE "SRV or last address gone but no ServiceRemoved",
                  {f \in c.resolved : ~\E s \in Dom(t) : /\ s[1] = "SRV" /\ s[2] = f /\ T < t[s].exp
                                                         /\ \E a \in Dom(t) : IsAddrTy(a[1]) /\ a[2] = t[s].tk /\ T < t[a].exp}>>)
    ELSE IF c.kind = "host" /\ c.bound /\ c.st = "started" THEN
         V("C17.removed-owed", \A p \in c.found : \E id \in Dom(t) : /\ IsAddrTy(id[1]) /\ id[2] = c.key /\ t[id].ip = p[1] /\ t[id].ifx = p[2]
                                                                     /\ T < t[id].exp,
           <<"address expired or withdrawn but no AddressesRemoved",
             {p \in c.found : ~\E id \in Dom(t) : IsAddrTy(id[1]) /\ id[2] = c.key /\ t[id].ip = p[1] /\ t[id].ifx = p[2] /\ T < t[id].exp}>>)
         \* the same observation read as C11: a record does not outlive its TTL (or the second a cache-flush leaves it)
         \cup V("C11.ttl", \A p \in c.found : \E id \in Dom(t) : /\ IsAddrTy(id[1]) /\ id[2] = c.key /\ t[id].ip = p[1] /\ t[id].ifx = p[2]
                                                               /\ T < t[id].exp,
                <<"an address is still held (not reported removed) after its TTL, or more than a second after a cache-flush displaced it",
                  {p \in c.found : ~\E id \in Dom(t) : IsAddrTy(id[1]) /\ id[2] = c.key /\ t[id].ip = p[1] /\ t[id].ifx = p[2] /\ T < t[id].exp}>>)
         \cup V("C17.found-owed",
                \A id \in {y \in Dom(t) : IsAddrTy(y[1]) /\ y[2] = c.key /\ t[y].forus /\ t[y].ttl # 0 /\ T + 1000 < t[y].exp /\ t[y].at >= c.at} :
                   <<t[id].ip, t[id].ifx>> \in c.ever,
                <<"address received for the host but not reported", {<<t[id].ip, t[id].ifx>> : id \in {y \in Dom(t) : IsAddrTy(y[1]) /\ y[2] = c.key /\ t[y].forus /\ t[y].ttl # 0 /\ T + 1000 < t[y].exp /\ t[y].at >= c.at}} \ c.ever>>)
         \cup V("C17.timeout-owed", c.deadline < 0 \/ T < c.deadline, <<"resolver past its deadline without SearchTimeout", c.deadline, T>>)
    ELSE {}
    : x \in Dom(ch)}

(* ------------------------------- queries -------------------------------- *)
(* C19: every question the daemon asks is explained by the doubling schedule *)
(* of an open search, a refresh mark of a record it needs (C11), one of at   *)
(* most three follow-ups of a found-but-unresolved instance (C04) or a       *)
(* verify request; C10 (querier side): known answers it lists.               *)
Sent == Ev.sent
Qpk == {i \in 1..Len(Sent) : Sent[i].ok /\ ~Sent[i].m.qr /\ Len(Sent[i].m.ns) = 0}
(* A and AAAA questions for one name are asked together: one question group "ADDR" *)
QTy(ty) == IF ty \in {"A", "AAAA"} THEN "ADDR" ELSE ty
QsOf(i) == {<<Sent[i].m.q[j].n.k, QTy(Sent[i].m.q[j].ty)>> : j \in 1..Len(Sent[i].m.q)}
AllQ == UNION {QsOf(i) : i \in Qpk}
Mult(X) == LET paths == {<<Sent[i]["if"], Sent[i].v4>> : i \in Qpk}
               cnt(p) == Cardinality({i \in Qpk : X \in QsOf(i) /\ <<Sent[i]["if"], Sent[i].v4>> = p})
           IN IF paths = {} THEN 0 ELSE CHOOSE n \in {cnt(p) : p \in paths} : \A p \in paths : cnt(p) <= n

MarkPcts == {80, 85, 90, 95}
MarkTime(e, m) == e.at + (LifeMs(e.ttl) \div 100) * m
DueMarks(e, at) == {m \in MarkPcts \ e.umarks : MarkTime(e, m) <= at}      \* not yet used as an explanation
OwedMarks(e, at) == {m \in MarkPcts \ e.marks : MarkTime(e, m) <= at}      \* not yet asked for
MinOf(S) == CHOOSE x \in S : \A y \in S : x <= y
RECURSIVE SumDue(_, _)
SumDue(t, S) == IF S = {} THEN 0 ELSE LET x == CHOOSE y \in S : TRUE IN Cardinality(DueMarks(t[x], T)) + SumDue(t, S \ {x})
FirstK(S, k) == {m \in S : Cardinality({x \in S : x < m}) < (IF k < 1 THEN 1 ELSE k)}

SchedKey(X) == IF X[2] = "PTR" THEN "b:" \o X[1] ELSE IF X[2] = "ADDR" THEN "h:" \o X[1] ELSE "-"
MatchIds(t, X) == {id \in Dom(t) : /\ T < t[id].exp
                                   /\ \/ (X[2] \in {"PTR", "SRV", "TXT"} /\ id[1] = X[2] /\ id[2] = X[1])
                                      \/ (X[2] = "ADDR" /\ IsAddrTy(id[1]) /\ id[2] = X[1])}

(* instances that were reported found, whose PTR is still held, and that are *)
(* not resolved on some bound channel                                       *)
(* (every instance a live PTR of a browsed type points to, reported found on the channel or not: the daemon follows up on     *)
(* what is in its cache, also on an instance it failed to report on a channel that replaced an earlier one - that failure    *)
(* is C04's / C13's business, the questions are in order)                                                                     *)
UnresolvedT(ch, t) ==
  UNION {{t[id].tk : id \in {i \in Dom(t) : i[1] = "PTR" /\ i[2] = ch[x].key /\ T < t[i].exp}} \ ch[x].resolved
         : x \in {y \in Dom(ch) : ch[y].kind = "browse" /\ ch[y].bound}}
(* s : [tab, sched, fu, v] ; X : <<name key, type>> ; one question of this iteration *)
Explain(s, ch, X) ==
  LET k == SchedKey(X)
      schedDue == k \in Dom(s.sched) /\ s.sched[k].next <= T /\ (s.sched[k].until < 0 \/ s.sched[k].next < s.sched[k].until)
      refIds == {id \in MatchIds(s.tab, X) : DueMarks(s.tab[id], T) # {}}
      fuInst == X[2] = "ANY" /\ X[1] \in UnresolvedT(ch, s.tab)
      fuHost == X[2] = "ADDR" /\ \E f \in UnresolvedT(ch, s.tab) : \E id \in Dom(s.tab) : id[1] = "SRV" /\ id[2] = f /\ s.tab[id].tk = X[1]
      fuKey == IF fuInst THEN X[1] ELSE IF fuHost THEN CHOOSE f \in UnresolvedT(ch, s.tab) : \E id \in Dom(s.tab) : id[1] = "SRV" /\ id[2] = f /\ s.tab[id].tk = X[1] ELSE ""
      fuOk == (fuInst \/ fuHost) /\ (fuKey \notin Dom(s.fu) \/ (s.fu[fuKey].n < 3 /\ (s.fu[fuKey].n = 0 \/ T >= s.fu[fuKey].last + 500 \/ s.fu[fuKey].last = T)))
      verOk == \E v \in s.verifs : /\ (T = v.at \/ (lastT < v.at + 1000 /\ v.at + 1000 <= T))
                                 /\ \/ (X[2] = "SRV" /\ X[1] = v.fnk)
                                    \/ (X[2] = "ADDR" /\ X[1] \in v.anyhosts)
      \* copies of one record under several letter cases of the owner name are refreshed independently
      caseCopies == \E id \in MatchIds(s.tab, X) : Cardinality(s.tab[id].us) > 1
      \* every mark that has passed explains one question (a wake-up that skipped several marks may ask once for all of them or -
      \* when the record is reached from two searches, a type and a subtype - once per mark)
      nRef == SumDue(s.tab, refIds)
      n == (IF schedDue THEN 1 ELSE 0) + nRef + (IF fuOk THEN 1 ELSE 0) + (IF verOk THEN 1 ELSE 0)
           + (IF caseCopies THEN 4 ELSE 0)
      \* each time the question was asked - beyond what schedule, follow-up and verify request account for: those are sent on
      \* their own and leave the marks alone - uses up the earliest mark of every record that was due
      other == (IF schedDue THEN 1 ELSE 0) + (IF fuOk THEN 1 ELSE 0) + (IF verOk THEN 1 ELSE 0)
      \* (what is owed is settled by any question for the record, whatever else may explain it)
      \* (the matching test is spelled out per record: building MatchIds once per record would be quadratic in the table)
      isMatch(id) == /\ T < s.tab[id].exp
                     /\ \/ (X[2] \in {"PTR", "SRV", "TXT"} /\ id[1] = X[2] /\ id[2] = X[1])
                        \/ (X[2] = "ADDR" /\ IsAddrTy(id[1]) /\ id[2] = X[1])
      tab2 == [id \in Dom(s.tab) |->
                 IF isMatch(id)
                 THEN [s.tab[id] EXCEPT !.umarks = IF id \in refIds /\ Mult(X) > other THEN @ \cup FirstK(DueMarks(s.tab[id], T), Mult(X) - other) ELSE @,
                                        !.marks = IF OwedMarks(s.tab[id], T) # {} THEN @ \cup FirstK(OwedMarks(s.tab[id], T), Mult(X)) ELSE @]
                 ELSE s.tab[id]]
      \* n / last: the follow-ups that cannot be anything else (at least that many were sent); m / lastAny: every question that
      \* may have been one - it coincided with a refresh mark, a schedule slot or a verify request - (at most that many)
      sure == fuOk /\ ~schedDue /\ refIds = {} /\ ~verOk
      old == IF fuKey \in Dom(s.fu) THEN s.fu[fuKey] ELSE [n |-> 0, last |-> 0, m |-> 0, lastAny |-> 0, tot |-> 0, lastTot |-> 0]
      fu2 == IF fuInst \/ fuHost
             THEN Put(s.fu, fuKey, [n |-> IF sure /\ old.last # T THEN old.n + 1 ELSE old.n, last |-> IF sure THEN T ELSE old.last,
                                    m |-> IF old.lastAny # T THEN old.m + 1 ELSE old.m, lastAny |-> T,
                                    tot |-> IF old.lastTot # T THEN old.tot + 1 ELSE old.tot, lastTot |-> T])
             ELSE s.fu
  IN [s EXCEPT !.tab = tab2, !.fu = fu2,
               !.used = s.used \cup (IF schedDue THEN {k} ELSE {}),
               !.v = s.v \cup V("C19.explained", n >= 1, <<"question not explained by schedule, refresh mark, follow-up or verify", X>>)
                         \cup V("C19.rate", Mult(X) <= (IF n = 0 THEN 1 ELSE n), <<"same question asked more often than explained", X, Mult(X), n>>),
               !.h = s.h \cup (IF schedDue THEN {"C19.schedule"} ELSE {}) \cup (IF refIds # {} THEN {"C11.refresh"} ELSE {})
                         \cup (IF fuOk THEN {"C04.followup"} ELSE {}) \cup (IF verOk THEN {"C05.verify-query"} ELSE {})]

(* a record of the instance that is news to the daemon (first heard, or heard again after the copy it held had run out)  *)
(* makes it look at the instance again: the follow-up queries for what is still missing start over                       *)
FuAfterNews(fu0, tOld, tNew) ==
  LET news(f) == \E id \in Dom(tNew) : /\ ((id[1] \in {"SRV", "TXT"} /\ id[2] = f) \/ (id[1] = "PTR" /\ tNew[id].tk = f))
                                        /\ tNew[id].at > lastT /\ tNew[id].ttl # 0
                                        /\ (id \notin Dom(tOld) \/ (tOld[id].ttl <= 1 /\ tNew[id].ttl > 1) \/ tOld[id].exp <= tNew[id].at)
  \* (tot, the number of possible follow-ups since the instance became unresolved, is kept: what is owed is judged by it)
  IN [k \in Dom(fu0) |-> IF news(k) THEN [fu0[k] EXCEPT !.n = 0, !.m = 0, !.last = 0, !.lastAny = 0] ELSE fu0[k]]

RECURSIVE FoldQ(_, _, _)
FoldQ(s, ch, Xs) == IF Xs = {} THEN s ELSE LET X == CHOOSE x \in Xs : TRUE IN FoldQ(Explain(s, ch, X), ch, Xs \ {X})

(* after the questions: advance the schedules that fired; a search whose     *)
(* slot is due must have asked (C19.schedule)                                *)
AdvanceSched(sc, used) ==
  [k \in Dom(sc) |-> IF k \in used
                     THEN [sc[k] EXCEPT !.next = T + sc[k].gap, !.gap = IF 2 * sc[k].gap > 3600000 THEN 3600000 ELSE 2 * sc[k].gap]
                     ELSE sc[k]]
SchedOwed(sc, used) ==
  UNION {V("C19.schedule", k \in used, <<"scheduled query of an open search missing", k, sc[k].next, T>>)
         : k \in {x \in Dom(sc) : sc[x].next <= T /\ (sc[x].until < 0 \/ sc[x].next < sc[x].until)}}

(* C11: a needed record whose 80/85/90/95 % mark fell due since the previous *)
(* iteration must be asked for now (records received in packets for us only) *)
NeededIds(t, ch) ==
  LET bk == {ch[x].key : x \in {y \in Dom(ch) : ch[y].kind = "browse" /\ ch[y].bound /\ ch[y].st = "started" /\ ~ch[y].cacheonly}}
      ok(id) == T < t[id].exp /\ T < t[id].vexp /\ t[id].forus /\ t[id].ttl > 1
      ptrs == {id \in Dom(t) : id[1] = "PTR" /\ id[2] \in bk /\ ok(id)}
      insts == {t[id].tk : id \in ptrs}
      srvs == {id \in Dom(t) : id[1] = "SRV" /\ id[2] \in insts /\ ok(id)}
      txts == {id \in Dom(t) : id[1] = "TXT" /\ id[2] \in insts /\ ok(id)}
      hosts == {t[id].tk : id \in srvs}
      addrs == {id \in Dom(t) : IsAddrTy(id[1]) /\ id[2] \in hosts /\ ok(id)}
  IN ptrs \cup srvs \cup txts \cup addrs
MarksOwed(tBefore, tAfter, ch) ==
  UNION {
     LET e == tBefore[id]
         fell == {m \in MarkPcts \ e.marks : lastT < MarkTime(e, m) /\ MarkTime(e, m) <= T}
     IN V("C11.marks", fell = {} \/ tAfter[id].marks # e.marks,
          <<"refresh mark passed without a query", id, fell, T>>)
     : id \in {x \in NeededIds(tBefore, ch) : x \in Dom(tAfter)}}

(* C17: the addresses of a host that is being resolved are refreshed at 80 % of their life *)
HostMarksOwed(tBefore, tAfter, ch) ==
  LET hk == {ch[x].key : x \in {y \in Dom(ch) : ch[y].kind = "host" /\ ch[y].bound /\ ch[y].st = "started"}}
      need == {id \in Dom(tBefore) : IsAddrTy(id[1]) /\ id[2] \in hk /\ tBefore[id].forus /\ tBefore[id].ttl > 1 /\ T < tBefore[id].exp /\ T < tBefore[id].vexp}
  IN UNION {
     LET e == tBefore[id]
         fell == {m \in {80} \ e.marks : lastT < MarkTime(e, m) /\ MarkTime(e, m) <= T}
     IN V("C17.refresh", fell = {} \/ tAfter[id].marks # e.marks, <<"80 % of an address record's life passed without a refresh query", id, T>>)
     : id \in {x \in need : x \in Dom(tAfter)}}
  \* ... and none runs out of TTL (its own, not cut short by a cache-flush or a goodbye) without that query ever having been sent
  \cup UNION {V("C17.refresh", 80 \in tBefore[id].marks \/ (id \in Dom(tAfter) /\ 80 \in tAfter[id].marks),
                <<"an address of a host being resolved ran out of TTL without the 80 % refresh query ever being sent", id, T>>)
             : id \in {x \in Dom(tBefore) : /\ IsAddrTy(x[1]) /\ x[2] \in hk /\ tBefore[x].forus /\ tBefore[x].ttl > 1
                                               /\ tBefore[x].exp = tBefore[x].at + LifeMs(tBefore[x].ttl) /\ tBefore[x].vdl = 0
                                               /\ lastT < tBefore[x].exp /\ tBefore[x].exp <= T
                                               /\ (x \in Dom(tAfter) => tAfter[x].at = tBefore[x].at)}}

(* what a found instance still lacks (used by the wake-up cover below and by C04.ask) *)
LiveFu(t, id) == t[id].forus /\ t[id].ttl # 0 /\ T < t[id].exp
SrvOf(t, f) == {id \in Dom(t) : id[1] = "SRV" /\ id[2] = f /\ LiveFu(t, id)}
LackKind(t, f) == IF SrvOf(t, f) = {} THEN "inst"
                  ELSE IF ~\E a \in Dom(t) : IsAddrTy(a[1]) /\ a[2] \in {t[id].tk : id \in SrvOf(t, f)} /\ LiveFu(t, a) THEN "host" ELSE "none"

(* C12: the wake-up the daemon asks for when it parks covers all pending      *)
(* time-driven work of the querier side that the history implies             *)
HostNeeded(t, ch) ==
  LET hk == {ch[x].key : x \in {y \in Dom(ch) : ch[y].kind = "host" /\ ch[y].bound /\ ch[y].st = "started"}}
  IN {id \in Dom(t) : IsAddrTy(id[1]) /\ id[2] \in hk /\ t[id].forus /\ t[id].ttl > 1 /\ T < t[id].exp /\ T < t[id].vexp}
NextMark(e) == LET ms == {MarkTime(e, m) : m \in MarkPcts \ e.marks} IN {x \in ms : x < e.exp}
DueTimes(t, ch, sc, fu2, ver) ==
  {sc[k].next : k \in {x \in Dom(sc) : sc[x].until < 0 \/ sc[x].next < sc[x].until}}
  \cup {t[id].exp : id \in NeededIds(t, ch) \cup HostNeeded(t, ch)}
  \cup UNION {NextMark(t[id]) : id \in NeededIds(t, ch)}
  \cup UNION {{x \in NextMark(t[id]) : x = MarkTime(t[id], 80)} : id \in HostNeeded(t, ch)}
  \cup {ch[x].deadline : x \in {y \in Dom(ch) : ch[y].kind = "host" /\ ch[y].bound /\ ch[y].st = "started" /\ ch[y].deadline >= 0}}
  \cup {v.at + 1000 : v \in {w \in ver : w.hosts # {}}}
  \* a follow-up series that is certainly under way (one question can be nothing else) and certainly not over
  \* (for an instance that is reported found right now: a ServiceRemoved ends its series)
  \cup {fu2[k].lastAny + 500 : k \in {x \in Dom(fu2) : /\ fu2[x].n >= 1 /\ fu2[x].m < 3 /\ fu2[x].tot < 3
                                                        /\ \E y \in Dom(ch) : ch[y].kind = "browse" /\ ch[y].bound /\ x \in ch[y].found
                                                        \* ... and that still lacks something: a series ends when nothing is missing
                                                        /\ LackKind(t, x) # "none"}}
WakeCover(t, ch, sc, fu2, ver) ==
  LET due == {d \in DueTimes(t, ch, sc, fu2, ver) : d > T} IN
  IF due = {} THEN {}
  ELSE V("C12.cover", Ev.wake >= 0 /\ Ev.wake <= MinOf(due),
         <<"requested wake-up later than pending time-driven work", Ev.wake, MinOf(due), T>>)

(* C10 (querier): known answers listed in own queries                        *)
KnownAnswerChecks(t) ==
  UNION {UNION {
     LET r == Sent[i].m.an[j]
         ids == {id \in Dom(t) : id[1] = r.ty /\ id[2] = r.n.k /\ id[3] = r.rk}
         reenc == r.ty = "PTR" /\ \E id \in Dom(t) : id[1] = "PTR" /\ id[2] = r.n.k /\ t[id].tk = r.t.k
     IN V("C10.known-only", ids # {} /\ \E q \in QsOf(i) : q[1] = r.n.k /\ (q[2] = QTy(r.ty) \/ q[2] = "ANY"),
          <<IF ids = {} /\ reenc THEN "known answer re-encoded with other labels than received (dot inside a label)"
            ELSE "known answer that was not received for that question", r.n.k, r.ty, r.rk>>)
        \cup V("C10.shared", ~r.fl, <<"unique (cache-flush) record listed as known answer", r.n.k, r.ty>>)
        \cup (IF ids # {} THEN
                V("C10.halflife", \E id \in ids : 2 * (T - t[id].at) <= LifeMs(t[id].ttl) /\ T < t[id].exp,
                  <<"known answer past half of its lifetime", r.n.k, r.ty, T>>)
                \cup V("C10.ttl", \E id \in ids : LET rem == t[id].at + LifeMs(t[id].ttl) - T IN
                                                 r.ttl * 1000 <= rem + 1000 /\ r.ttl * 1000 + 1000 >= rem,
                       <<"known answer TTL is not the remaining lifetime", r.n.k, r.ttl, T>>)
              ELSE {})
     : j \in 1..Len(Sent[i].m.an)} : i \in Qpk}

(* C04: the daemon's own questions carry the label sequence of the records   *)
(* it received (names with dots / backslashes inside a label)                *)
QuestionLabels(t) ==
  UNION {UNION {
     LET q == Sent[i].m.q[j]
         own == {x \in Dom(t) : x[2] = q.n.k}
         tgt == {x \in Dom(t) : t[x].tk = q.n.k}
         spell == {t[id].s : id \in own} \cup {t[id].ts : id \in tgt}
         spellU == {t[id].u : id \in own} \cup {t[id].tu : id \in tgt}
     IN V("C04.labels-query", spell = {} \/ q.n.sk \in spell,
          <<IF q.n.u \in spellU THEN "question asked with other labels than the received name (dot inside a label)"
            ELSE "question asked with another spelling than the received name", q.n.sk, spell>>)
     : j \in 1..Len(Sent[i].m.q)} : i \in Qpk}

(* C13: a cache-only browse never sends a query for its type                 *)
CacheOnlyQuiet(ch) ==
  LET co == {ch[x].key : x \in {y \in Dom(ch) : ch[y].kind = "browse" /\ ch[y].bound /\ ch[y].cacheonly}}
      live == {ch[x].key : x \in {y \in Dom(ch) : ch[y].kind = "browse" /\ ch[y].bound /\ ~ch[y].cacheonly}}
  IN UNION {V("C13.cacheonly", ~(X[2] = "PTR" /\ X[1] \in co \ live),
              <<IF \E id \in Dom(tab) : id[1] = "PTR" /\ id[2] = X[1] /\ T < tab[id].exp /\ DueMarks(tab[id], T) # {}
                THEN "refresh query (80-95 % of a PTR record's life) for a type that is only browsed cache-only"
                ELSE "query for a type that is only browsed cache-only", X>>) : X \in AllQ}

(* C10.everywhere: a scheduled search query leaves on every interface / family in use *)
Paths == UNION {{<<x.idx, a.v4>> : a \in Range(x.addrs)} : x \in {y \in Range(ifs) : y.up}}
Everywhere(used) ==
  UNION {V("C10.everywhere",
           \A p \in Paths : \E i \in Qpk : Sent[i]["if"] = p[1] /\ Sent[i].v4 = p[2] /\ \E q \in QsOf(i) : SchedKey(q) = k,
           <<"search query not sent on every interface / family", k>>) : k \in used}

(* C20: get_metrics against the ground truth                                 *)
RECURSIVE SumUs(_, _)
SumUs(t, S) == IF S = {} THEN 0 ELSE LET x == CHOOSE y \in S : TRUE IN Cardinality(t[x].us) + SumUs(t, S \ {x})
(* one cached record per owner spelling (letter case) is tolerated           *)
Count(t, tys) == SumUs(t, {id \in Dom(t) : id[1] \in tys /\ lastT < t[id].exp})
(* records of a name of which something arrived in a packet that was for us (the daemon keeps further records of a name it already holds) *)
CountFu(t, tys) == LET fuNames == {y[2] : y \in {x \in Dom(t) : t[x].everFu}} IN
                   SumUs(t, {id \in Dom(t) : id[1] \in tys /\ lastT < t[id].exp /\ id[2] \in fuNames})
RECURSIVE NewArrivals(_)
NewArrivals(ds) ==
  IF ds = <<>> THEN <<>>
  ELSE LET d == Head(ds) IN
       (IF d.ok /\ d.m.qr
        THEN [i \in 1..Len(d.m.an) |-> d.t + LifeMs(d.m.an[i].ttl)] \o [i \in 1..Len(d.m.ns) |-> d.t + LifeMs(d.m.ns[i].ttl)]
             \o [i \in 1..Len(d.m.ar) |-> d.t + LifeMs(d.m.ar[i].ttl)]
        ELSE <<>>) \o NewArrivals(Tail(ds))

MetricsChecks(t, ch) ==
  UNION {
    LET m == Ev.replies[j].v
        searches == Cardinality({x \in Dom(ch) : ch[x].bound})
    IN IF TRUE THEN
         V("C20.bound", /\ m["cached-ptr"] <= Count(t, {"PTR"}) /\ m["cached-srv"] <= Count(t, {"SRV"})
                        /\ m["cached-txt"] <= Count(t, {"TXT"}) /\ m["cached-addr"] <= Count(t, {"A", "AAAA"}),
           <<IF \E id \in Dom(t) : Cardinality(t[id].everUs) > 1
             THEN "a record is cached once per letter-case spelling of its owner name, each copy with its own TTL: more records cached than distinct records alive"
             ELSE "more records cached than were received and are still alive",
             <<m["cached-ptr"], Count(t, {"PTR"})>>, <<m["cached-srv"], Count(t, {"SRV"})>>,
             <<m["cached-txt"], Count(t, {"TXT"})>>, <<m["cached-addr"], Count(t, {"A", "AAAA"})>>>>)
         \* unrequested data is not kept: records that only ever arrived in packets that were somebody else's answers
         \cup V("C20.unrequested", /\ m["cached-srv"] <= CountFu(t, {"SRV"}) /\ m["cached-txt"] <= CountFu(t, {"TXT"})
                               /\ m["cached-addr"] <= CountFu(t, {"A", "AAAA"}) /\ m["cached-ptr"] <= CountFu(t, {"PTR"}),
                <<IF \E id \in Dom(t) : Cardinality(t[id].everUs) > 1
                  THEN "a record is cached once per letter-case spelling of its owner name, each copy with its own TTL: more records cached than distinct records alive"
                  ELSE "records kept of names of which nothing ever arrived in a packet for us (only in answers to somebody else's browse)",
                  <<m["cached-ptr"], CountFu(t, {"PTR"})>>, <<m["cached-srv"], CountFu(t, {"SRV"})>>, <<m["cached-txt"], CountFu(t, {"TXT"})>>,
                  <<m["cached-addr"], CountFu(t, {"A", "AAAA"})>>>>)
         \* per statement: proportional to what searches need, not to the traffic
         \cup V("C20.timers", m["timer"] <= 8 + 12 * (Cardinality({id \in Dom(t) : lastT < t[id].exp}) + searches) + 3 * Cardinality(Dom(t)),
                <<"timers grow with the number of record arrivals (two per arrival, kept until due), not with what searches need",
                  m["timer"], Cardinality({id \in Dom(t) : lastT < t[id].exp}), searches>>)
         \* everything expired, all searches stopped: nothing but the periodic interface check is left
         \* (judged once the last search has been stopped for five seconds: housekeeping timers of the stop itself have fired by then)
         \cup V("C20.empty", (searches = 0 /\ Len(arrs) = 0 /\ {id \in Dom(t) : lastT < t[id].exp} = {}
                               /\ \A y \in Dom(ch) : ch[y].stoppedAt + 5000 <= T)
                              => (m["timer"] <= 1 /\ m["cached-ptr"] = 0 /\ m["cached-srv"] = 0 /\ m["cached-txt"] = 0
                                  /\ m["cached-addr"] = 0 /\ m["cached-nsec"] = 0),
                <<"state left although every TTL has passed and all searches are stopped", m["timer"], m["cached-ptr"], m["cached-srv"],
                  m["cached-txt"], m["cached-addr"], m["cached-nsec"]>>)
         \* weaker: even counting every arrival still inside its lifetime, timers that are due get popped
         \cup V("C20.timers-popped", m["timer"] <= 8 + 12 * (Cardinality({id \in Dom(t) : lastT < t[id].exp}) + searches) + 4 * Len(arrs),
                <<"timers are not popped / leak", m["timer"], Len(arrs)>>)
       ELSE {}
    : j \in {x \in 1..Len(Ev.replies) : Ev.replies[x].k = "metrics"}}

(* C04.ask: a found instance that is not resolved is asked for - first its SRV / TXT, then, once an SRV is there, the  *)
(* addresses of its host - within half a second (judged after one second), as long as its three follow-ups last        *)
AskInsts(ch) == UNION {ch[x].found \ ch[x].resolved : x \in {y \in Dom(ch) : ch[y].kind = "browse" /\ ch[y].bound /\ ch[y].st = "started" /\ ~ch[y].cacheonly}}
AskedNow(t, f, k) == IF k = "inst" THEN \E X \in AllQ : X[1] = f /\ X[2] \in {"ANY", "SRV", "TXT"}
                     ELSE IF k = "host" THEN \E X \in AllQ : X[2] \in {"ADDR", "ANY"} /\ X[1] \in {t[id].tk : id \in SrvOf(t, f)}
                     ELSE TRUE
LackStep(lk, t, ch, fu2) ==
  [f \in {g \in AskInsts(ch) : \E id \in Dom(t) : id[1] = "PTR" /\ t[id].tk = g /\ LiveFu(t, id)} |->
     LET k == LackKind(t, f)  a == AskedNow(t, f, k)
         \* an obligation begins when the instance is found, and when its SRV arrives and the addresses are the next thing to ask for;
         \* records that were there and ran out are the business of the refresh schedule (C11 / C12), not of the follow-up
         fresh == f \notin Dom(lk) \/ (lk[f].kind = "inst" /\ k = "host")
         \* three follow-ups were sent for the instance while it was unresolved (possibly before this channel found it: the
         \* daemon keeps one series per instance): nothing more is owed, whatever arrives later
         spent == f \in Dom(fu2) /\ fu2[f].tot >= 3 IN
     IF f \in Dom(lk) /\ lk[f].kind = k THEN [lk[f] EXCEPT !.asked = @ \/ a \/ spent] ELSE [kind |-> k, since |-> T, asked |-> a \/ ~fresh \/ spent]]
AskOwed(lk, fu2) ==
  UNION {V("C04.ask", lk[f].asked \/ lk[f].kind = "none" \/ T < lk[f].since + 1000 \/ (f \in Dom(fu2) /\ fu2[f].tot >= 3),
           <<IF lk[f].kind = "inst" THEN "found instance without SRV: its SRV / TXT were not asked for within a second"
             ELSE "found instance whose SRV is known but no address: the host's addresses were not asked for within a second", f, lk[f].since, T>>)
         : f \in Dom(lk)}

(* ------------------- the loop's own bookkeeping when it parks ------------ *)
(* (hook publish_loop: the timer heap - its size and the earliest 40 entries - and the queued re-runs with kind and key) *)
(* C12.loop-wake   the wake-up asked for is the earliest timer (a timer that has passed: one millisecond)               *)
(* C12.loop-cover  every queued re-run has a timer of its own, so the earliest timer is never later than a re-run      *)
(* C19.loop-one    one chain of re-runs per search and per unresolved instance: browsing again replaces, follow-ups do *)
(*                 not multiply                                                                                         *)
(* C13.loop-stopped  no re-run is left of a search that is over                                                         *)
(* C19.loop-sched   the re-run queued for an open search is due exactly at the next slot of its doubling schedule      *)
LoopChecks(ch, sc) ==
  IF ~("loop" \in DOMAIN Ev) \/ ~Ev.loop \/ ~Ev.alive THEN {}
  ELSE
    LET tm == Ev.tm   rr == Range(Ev.rr)
        hasTimer(t) == (\E j \in 1..Len(tm) : tm[j] = t) \/ (Len(tm) = 40 /\ t > tm[40])
        of(k) == {r \in rr : r.k = k}
        keysOf(k) == {r.keyk : r \in of(k)}
        boundKeys(kind) == {ch[x].key : x \in {y \in Dom(ch) : ch[y].kind = kind /\ ch[y].bound}}
    IN V("C12.loop-wake", Ev.wake = (IF Ev.ntm = 0 THEN 0 - 1 ELSE IF tm[1] > T THEN tm[1] ELSE T + 1),
         <<"the wake-up asked for is not the earliest timer", Ev.wake, IF Ev.ntm = 0 THEN 0 - 1 ELSE tm[1], T>>)
       \cup UNION {V("C12.loop-cover", hasTimer(r.t), <<"a queued re-run without a timer of its own", r.k, r.t, T>>) : r \in rr}
       \cup UNION {V("C19.loop-one", Cardinality({r \in of(k) : r.keyk = x}) <= 1,
                     <<IF k = "Resolve" THEN "more than one chain of follow-up queries queued for one instance"
                       ELSE "more than one chain of re-runs queued for one search", k, x, Cardinality({r \in of(k) : r.keyk = x})>>)
                   : <<k, x>> \in UNION {{<<k2, y>> : y \in keysOf(k2)} : k2 \in {"Browse", "ResolveHostname", "Resolve"}}}
       \* C04.loop-tries: a follow-up is at most the third try and at most half a second away
       \cup UNION {V("C04.loop-tries", r.n >= 1 /\ r.n <= 3 /\ r.t <= T + 500,
                     <<"a queued follow-up query is beyond the third try or more than half a second away", r.keyk, r.n, r.t, T>>) : r \in of("Resolve")}
       \cup (IF Ev.pend # 0 THEN {}
             ELSE UNION {V("C19.loop-sched", \E r \in rr : /\ r.t = sc[k].next
                                                          /\ r.n * 1000 = sc[k].gap       \* the delay it will go on with: doubled, capped
                                                          /\ \/ (r.k = "Browse" /\ "b:" \o r.keyk = k)
                                                             \/ (r.k = "ResolveHostname" /\ "h:" \o r.keyk = k),
                           <<"the re-run queued for an open search is not due at the next slot of its schedule (1, 2, 4 .. s, capped at one hour)",
                             k, sc[k].next, {r.t : r \in {q \in rr : "b:" \o q.keyk = k \/ "h:" \o q.keyk = k}}, T>>)
                         : k \in {x \in Dom(sc) : sc[x].next > T /\ (sc[x].until < 0 \/ sc[x].next < sc[x].until)}})
       \cup (IF Ev.pend # 0 THEN {}
             ELSE UNION {V("C13.loop-stopped", x \in boundKeys("browse"), <<"a query re-run is still queued for a type that is no longer browsed", x>>) : x \in keysOf("Browse")}
                  \cup UNION {V("C13.loop-stopped", x \in boundKeys("host"), <<"a query re-run is still queued for a host name that is no longer resolved", x>>) : x \in keysOf("ResolveHostname")})

IdleNow == Len(Ev.sent) = 0 /\ Len(Ev.events) = 0 /\ Len(Ev.replies) = 0 /\ inbox = <<>> /\ cmds = <<>>
                 /\ Ev.wake >= 0 /\ Ev.wake <= T + 1
SpinV == V("C12.nospin", ~(IdleNow /\ streak + 1 = 30),
           <<"30 iterations in a row without work, each asking to be woken within 1 ms (timer at or before the current time)", T>>)

Iter ==
  /\ Ev.e = "iter"
  /\ streak' = IF IdleNow THEN streak + 1 ELSE 0
  /\ \E t1 \in {Ingest(tab, inbox)} :
     \E s1 \in {FoldCmd([tab |-> t1, chan |-> chan, cur |-> cur, owedStop |-> owedStop, down |-> down,
                         sched |-> sched, verifs |-> verifs], cmds)} :
     \E s2 \in {FoldEv([chan |-> s1.chan, owedStop |-> s1.owedStop, v |-> {}], s1.tab, Ev.events)} :
     \E s3 \in {FoldQ([tab |-> s1.tab, sched |-> s1.sched, fu |-> FuAfterNews(fu, tab, t1), verifs |-> s1.verifs, used |-> {}, v |-> {}, h |-> {}], s2.chan, AllQ)} :
       /\ tab' = s3.tab /\ cur' = s1.cur /\ down' = s1.down
       /\ chan' = [x \in Dom(s2.chan) |->
                     IF s2.chan[x].kind = "host"
                     THEN [s2.chan[x] EXCEPT !.ever = {p \in @ : \E id \in Dom(s3.tab) : IsAddrTy(id[1]) /\ id[2] = s2.chan[x].key
                                                                     /\ s3.tab[id].ip = p[1] /\ s3.tab[id].ifx = p[2] /\ T < s3.tab[id].exp}]
                     ELSE s2.chan[x]]
       /\ owedStop' = s2.owedStop
       /\ sched' = AdvanceSched(s1.sched, s3.used)
       \* (an instance that is reported removed in this iteration is through with its series: found again, it is "newly found")
       /\ fu' = [k \in (Dom(s3.fu) \cap UnresolvedT(s2.chan, s3.tab))
                         \ {Ev.events[j].fnk : j \in {x \in 1..Len(Ev.events) : Ev.events[x].k = "ServiceRemoved"}} |-> s3.fu[k]]
       /\ lack' = LackStep(lack, s3.tab, s2.chan, s3.fu)
       /\ verifs' = {v \in s1.verifs : T < v.at + 1001}
       /\ lastT' = T
       /\ arrs' = SelectSeq(arrs \o NewArrivals(inbox), LAMBDA x : x > T)
       /\ viol' = Cap(viol, SpinV \cup s2.v \cup s3.v
                    \cup (IF Ev.alive /\ ~s1.down THEN ParkInvariants(s2.chan, s1.tab) \cup TxtCompletes(chan, s2.chan, tab, s1.tab) \cup SchedOwed(s1.sched, s3.used)
                                                       \cup MarksOwed(s1.tab, s3.tab, s2.chan)
                                                       \cup AskOwed(LackStep(lack, s3.tab, s2.chan, s3.fu), s3.fu)
                                                       \cup HostMarksOwed(s1.tab, s3.tab, s2.chan)
                                                       \cup WakeCover(s3.tab, s2.chan, AdvanceSched(s1.sched, s3.used), s3.fu, {v \in s1.verifs : T < v.at + 1000})
                                                       \cup LoopChecks(s2.chan, AdvanceSched(s1.sched, s3.used))
                          ELSE {})
                    \cup KnownAnswerChecks(s1.tab) \cup Everywhere(s3.used) \cup MetricsChecks(s1.tab, s2.chan)
                    \cup QuestionLabels(s1.tab) \cup CacheOnlyQuiet(s2.chan)
                    \cup V("C13.stopped-once", s2.owedStop = {}, <<"SearchStopped owed but not delivered in the iteration of the stop", s2.owedStop>>))
       /\ hits' = hits \cup {"ev." \o Ev.events[i].k : i \in 1..Len(Ev.events)} \cup s3.h
                       \cup (IF \E x \in Dom(s2.chan) : s2.chan[x].resolved # {} THEN {"C03.resolved"} ELSE {})
                       \cup (IF \E x \in Dom(chan) : chan[x].kind = "browse" /\ chan[x].st = "started"
                                  /\ \E i \in Dom(s1.tab) : /\ i[1] = "TXT" /\ s1.tab[i].at > lastT /\ s1.tab[i].forus /\ s1.tab[i].txtd # <<>>
                                                            /\ i[2] \in chan[x].resolved /\ ~\E o \in Dom(tab) : o[1] = "TXT" /\ o[2] = i[2]
                             THEN {"C04.resolve-txt"} ELSE {})
                       \cup (IF \E i \in Qpk : Len(Sent[i].m.an) > 0 THEN {"C10.known-answer"} ELSE {})
                       \cup (IF \E j \in 1..Len(Ev.replies) : Ev.replies[j].k = "metrics" THEN {"C20.metrics"} ELSE {})
                       \cup (IF "loop" \in DOMAIN Ev /\ Ev.loop /\ Ev.ntm > 0 THEN {"C12.loop-wake"} ELSE {})
                       \cup (IF "loop" \in DOMAIN Ev /\ Ev.loop /\ Len(Ev.rr) > 0 THEN {"C12.loop-cover", "C19.loop-one", "C13.loop-stopped", "C19.loop-sched"} ELSE {})
                       \cup (IF "loop" \in DOMAIN Ev /\ Ev.loop /\ \E j \in 1..Len(Ev.rr) : Ev.rr[j].k = "Resolve" THEN {"C04.loop-tries"} ELSE {})
                       \cup (IF (\E j \in 1..Len(Ev.replies) : Ev.replies[j].k = "metrics") /\ Len(arrs) = 0 /\ ~\E x \in Dom(s2.chan) : s2.chan[x].bound
                             THEN {"C20.empty"} ELSE {})
  /\ inbox' = <<>> /\ cmds' = <<>>
  /\ UNCHANGED <<scen, ifs>>

Reset == /\ Ev.e = "reset"
         /\ scen' = Ev.scen.id /\ tab' = <<>> /\ chan' = <<>> /\ cur' = <<>> /\ owedStop' = {} /\ down' = FALSE
         /\ sched' = <<>> /\ fu' = <<>> /\ lack' = <<>> /\ verifs' = {} /\ lastT' = 0 /\ ifs' = Ev.hosts[1] /\ arrs' = <<>>
         /\ inbox' = <<>> /\ cmds' = <<>>
         /\ UNCHANGED <<viol, hits, streak>>
Call == /\ Ev.e = "call"
        /\ cmds' = Append(cmds, Ev)
        /\ UNCHANGED <<scen, tab, chan, cur, owedStop, down, sched, fu, lack, verifs, lastT, ifs, arrs, inbox, viol, hits, streak>>
Deliver == /\ Ev.e = "deliver"
           /\ inbox' = Append(inbox, Ev)
           /\ UNCHANGED <<scen, tab, chan, cur, owedStop, down, sched, fu, lack, verifs, lastT, ifs, arrs, cmds, viol, hits, streak>>
IfsEv == /\ Ev.e = "ifs"
         /\ ifs' = Ev.ifs
         /\ UNCHANGED <<scen, tab, chan, cur, owedStop, down, sched, fu, lack, verifs, lastT, arrs, inbox, cmds, viol, hits, streak>>
Skip == /\ Ev.e \in {"adv", "dead", "note", "spawn"}
        /\ viol' = viol
        /\ UNCHANGED <<scen, tab, chan, cur, owedStop, down, sched, fu, lack, verifs, lastT, ifs, arrs, inbox, cmds, hits, streak>>

Init == /\ l = 1 /\ scen = 0 /\ tab = <<>> /\ chan = <<>> /\ cur = <<>> /\ owedStop = {} /\ down = FALSE
        /\ sched = <<>> /\ fu = <<>> /\ lack = <<>> /\ verifs = {} /\ lastT = 0 /\ ifs = <<>> /\ arrs = <<>>
        /\ inbox = <<>> /\ cmds = <<>> /\ viol = {} /\ hits = {} /\ streak = 0
Next == l <= Len(Rec) /\ l' = l + 1 /\ (Reset \/ Call \/ Deliver \/ IfsEv \/ Skip \/ Iter)
Spec == Init /\ [][Next]_vars

Track == TLCSet(1, viol) /\ TLCSet(2, hits)
Accepted ==
  LET consumed == TLCGet("stats").diameter - 1 IN
  /\ PrintT(<<"RESULT", ToJson([consumed |-> consumed, total |-> Len(Rec), viol |-> TLCGet(1), hits |-> TLCGet(2)])>>)
  /\ consumed = Len(Rec)
  /\ TLCGet(1) = {}
=============================================================================
