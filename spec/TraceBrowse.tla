----------------------------- MODULE TraceBrowse -----------------------------
(***************************************************************************)
(* Trace monitor for the querier-side properties over a single-daemon      *)
(* trace (sim.rs): C03 (resolved events show live received data), C04      *)
(* (found / resolved when the records have arrived), C05 (removed on time   *)
(* and only when true), C13 (channel protocol, stop), C17 (hostname         *)
(* resolution events).  Ground truth: Heard.tla.  Non-blocking (`viol`).     *)
(*                                                                         *)
(* Order inside one loop iteration of the daemon: datagrams first, then     *)
(* commands, then time-driven work; the monitor applies the inbox and the    *)
(* commands to the ground truth and then judges the iteration's events in    *)
(* order, and finally the invariants that must hold whenever the daemon     *)
(* parks ("what the client has been told matches what is live").            *)
(***************************************************************************)
EXTENDS Heard, Integers, TLC, TLCExt, Json, IOUtils

Rec == ndJsonDeserialize(IOEnv.TRACE)

VARIABLES l, scen,
          tab,      \* Heard table
          chan,     \* channel id -> record (see NewBrowse / NewHost)
          cur,      \* search key -> channel id of the search currently bound to it ("b:"type / "h:"host)
          owedStop, \* channels that are owed a SearchStopped
          down,     \* shutdown was called
          inbox, cmds, viol, hits
vars == <<l, scen, tab, chan, cur, owedStop, down, inbox, cmds, viol, hits>>

Ev == Rec[l]
T  == Ev.t
V(tag, cond, extra) == IF cond THEN {} ELSE {<<tag, l, scen, extra>>}
Dom(f) == DOMAIN f
Put(f, k, v) == [x \in Dom(f) \cup {k} |-> IF x = k THEN v ELSE f[x]]
Del(f, ks) == [x \in Dom(f) \ ks |-> f[x]]
Range(s) == {s[i] : i \in 1..Len(s)}

Present(t, id, at) == id \in Dom(t) /\ at < t[id].exp

(* ------------------------------ searches -------------------------------- *)
BrowsedU == {chan[c].ty : c \in {x \in Dom(chan) : chan[x].kind = "browse" /\ cur["b:" \o chan[x].key] = x /\ chan[x].bound}}
ResolvingK == {chan[c].key : c \in {x \in Dom(chan) : chan[x].kind = "host" /\ chan[x].bound}}

ForUs(m) ==
  LET ptrs == {i \in 1..Len(m.an) : m.an[i].ty = "PTR"} IN
  \/ ptrs = {}
  \/ \E i \in ptrs : m.an[i].n.u \in BrowsedU
  \/ \E i \in 1..Len(m.an) : m.an[i].ty \in {"A", "AAAA"} /\ m.an[i].n.k \in ResolvingK

(* all records of the inbox into the table, in arrival order                 *)
RECURSIVE Ingest(_, _)
Ingest(t, ds) ==
  IF ds = <<>> THEN t
  ELSE LET d == Head(ds) IN
       IF d.ok /\ d.m.qr
       THEN LET fu == ForUs(d.m) IN
            Ingest(ArriveAll(ArriveAll(ArriveAll(t, d.m.an, d["if"], d.t, fu), d.m.ns, d["if"], d.t, fu),
                             d.m.ar, d["if"], d.t, fu), Tail(ds))
       ELSE Ingest(t, Tail(ds))

(* ------------------------------ commands -------------------------------- *)
NewBrowse(c) == [kind |-> "browse", ty |-> c.args.ty, key |-> c.args.tyk, st |-> "fresh", bound |-> TRUE,
                 cacheonly |-> c.fn = "browse_cache", found |-> {}, ever |-> {}, resolved |-> {},
                 removedAt |-> <<>>, at |-> T, stoppedAt |-> 0]
NewHost(c) == [kind |-> "host", ty |-> c.args.host, key |-> c.args.hostk, st |-> "fresh", bound |-> TRUE,
               cacheonly |-> FALSE, found |-> {}, ever |-> {}, resolved |-> {}, removedAt |-> <<>>, at |-> T,
               stoppedAt |-> 0, deadline |-> IF c.args.timeout >= 0 THEN T + c.args.timeout ELSE -1]

(* s : [tab, chan, cur, owedStop, down]                                      *)
ApplyCmd(s, c) ==
  CASE c.fn \in {"browse", "browse_cache"} /\ c.res = "ok" ->
         LET k == "b:" \o c.args.tyk
             old == IF k \in Dom(s.cur) THEN {s.cur[k]} ELSE {} IN
         [s EXCEPT !.chan = Put([x \in Dom(s.chan) |-> IF x \in old THEN [s.chan[x] EXCEPT !.bound = FALSE] ELSE s.chan[x]],
                                c.ch, NewBrowse(c)),
                   !.cur = Put(s.cur, k, c.ch),
                   !.owedStop = s.owedStop \cup (IF c.fn = "browse_cache" THEN {c.ch} ELSE {})]
    [] c.fn = "stop_browse" /\ c.res = "ok" ->
         LET k == "b:" \o c.args.tyk IN
         IF k \in Dom(s.cur) /\ s.chan[s.cur[k]].bound /\ s.chan[s.cur[k]].ty = c.args.ty
         THEN [s EXCEPT !.tab = Forget(s.tab, c.args.tyk),
                        !.owedStop = s.owedStop \cup {s.cur[k]},
                        !.chan = [x \in Dom(s.chan) |-> IF x = s.cur[k] THEN [s.chan[x] EXCEPT !.bound = FALSE, !.stoppedAt = T] ELSE s.chan[x]]]
         ELSE s
    [] c.fn = "resolve_hostname" /\ c.res = "ok" ->
         LET k == "h:" \o c.args.hostk
             old == IF k \in Dom(s.cur) THEN {s.cur[k]} ELSE {} IN
         [s EXCEPT !.chan = Put([x \in Dom(s.chan) |-> IF x \in old THEN [s.chan[x] EXCEPT !.bound = FALSE] ELSE s.chan[x]],
                                c.ch, NewHost(c)),
                   !.cur = Put(s.cur, k, c.ch)]
    [] c.fn = "stop_resolve_hostname" /\ c.res = "ok" ->
         LET k == "h:" \o c.args.hostk IN
         IF k \in Dom(s.cur) /\ s.chan[s.cur[k]].bound
         THEN [s EXCEPT !.owedStop = s.owedStop \cup {s.cur[k]},
                        !.chan = [x \in Dom(s.chan) |-> IF x = s.cur[k] THEN [s.chan[x] EXCEPT !.bound = FALSE, !.stoppedAt = T] ELSE s.chan[x]]]
         ELSE s
    [] c.fn = "verify" /\ c.res = "ok" ->
         [s EXCEPT !.tab = Shorten(s.tab, c.args.fnk, T + c.args.timeout, T)]
    [] c.fn = "shutdown" /\ c.res = "ok" ->
         [s EXCEPT !.down = TRUE,
                   !.owedStop = s.owedStop \cup {x \in Dom(s.chan) : s.chan[x].bound /\ s.chan[x].kind \in {"browse", "host"}},
                   !.chan = [x \in Dom(s.chan) |-> [s.chan[x] EXCEPT !.bound = FALSE, !.stoppedAt = T]]]
    [] OTHER -> s

RECURSIVE FoldCmd(_, _)
FoldCmd(s, cs) == IF cs = <<>> THEN s ELSE FoldCmd(ApplyCmd(s, Head(cs)), Tail(cs))

(* ------------------------------- events --------------------------------- *)
LiveAt(t, tyk, fnk, at) ==
  /\ PtrIds(t, tyk, fnk, at) # {}
  /\ \E id \in SrvIds(t, fnk, at) : AddrIds(t, t[id].tk, at) # {}

(* the same, counting only records the daemon had to keep (received in packets that were for it) *)
LiveForUsAt(t, tyk, fnk, at) ==
  /\ \E p \in PtrIds(t, tyk, fnk, at) : t[p].forus
  /\ \E id \in SrvIds(t, fnk, at) : t[id].forus /\ \E a \in AddrIds(t, t[id].tk, at) : t[a].forus

RelatedNewer(t, tyk, fnk, hostk, since) ==
  \E id \in Dom(t) : /\ t[id].at >= since
                     /\ \/ (id[1] = "PTR" /\ id[2] = tyk /\ t[id].tk = fnk)
                        \/ (id[1] \in {"SRV", "TXT"} /\ id[2] = fnk)
                        \/ (IsAddrTy(id[1]) /\ id[2] = hostk)

AddrsOf(e) == Range(e.addrs)

(* s : [chan, owedStop, v] ; e : one event                                   *)
StepEv(s, t, e) ==
  IF e.ch \notin Dom(s.chan) THEN s
  ELSE
  LET c == s.chan[e.ch]
      upd(c2, vs) == [s EXCEPT !.chan = Put(s.chan, e.ch, c2), !.v = s.v \cup vs]
      afterStop == V("C13.last", ~(c.st = "stopped" /\ ~c.cacheonly), <<"event after SearchStopped", e.k, e.ch>>)
      first == V("C13.first", c.st # "fresh" \/ e.k = "SearchStarted", <<"first event is not SearchStarted", e.k>>)
  IN
  IF c.kind = "browse" THEN
    CASE e.k = "SearchStarted" -> upd([c EXCEPT !.st = IF c.st = "fresh" THEN "started" ELSE c.st], afterStop)
      [] e.k = "ServiceFound" ->
           upd([c EXCEPT !.found = c.found \cup {e.fnk}, !.ever = c.ever \cup {e.fnk}],
               afterStop \cup first
               \cup V("C03.found-live", PtrIds(t, c.key, e.fnk, T) # {}, <<"ServiceFound without a live PTR", e.fnk>>)
               \cup V("C04.labels", e.ty = c.ty, <<"type of the event", e.ty, c.ty>>))
      [] e.k = "ServiceResolved" ->
           upd([c EXCEPT !.resolved = c.resolved \cup {e.fnk}, !.found = c.found \cup {e.fnk},
                         !.removedAt = Del(c.removedAt, {e.fnk})],
               afterStop \cup first
               \cup V("C13.found-first", e.fnk \in c.ever, <<"ServiceResolved before ServiceFound", e.fnk>>)
               \cup V("C03.ptr", PtrIds(t, c.key, e.fnk, T) # {}, <<"resolved without a live PTR", e.fnk>>)
               \cup V("C03.srv", \E id \in SrvIds(t, e.fnk, T) : t[id].tk = e.hostk /\ t[id].port = e.port /\ t[id].tu = e.host,
                      <<"host/port not from a live SRV", e.fnk, e.host, e.port>>)
               \cup V("C03.addr", /\ e.host # "" /\ Len(e.addrs) > 0
                                  /\ \A x \in AddrsOf(e) : /\ Len(x.ifs) > 0
                                                           /\ \A i \in Range(x.ifs) : \E id \in AddrIds(t, e.hostk, T) : t[id].ip = x.ip /\ t[id].ifx = i,
                      <<"address not from a live record heard on that interface", e.fnk, e.addrs>>)
               \cup V("C03.txt", Len(e.txt) = 0 \/ \E id \in TxtIds(t, e.fnk, T) : t[id].txtd = e.txt,
                      <<"TXT not from a live record", e.fnk, e.txt>>)
               \cup (IF e.fnk \in Dom(c.removedAt)
                     THEN V("C05.resurrect", RelatedNewer(t, c.key, e.fnk, e.hostk, c.removedAt[e.fnk]),
                            <<"resolved again after removal without new records", e.fnk>>)
                     ELSE {}))
      [] e.k = "ServiceRemoved" ->
           upd([c EXCEPT !.found = c.found \ {e.fnk}, !.resolved = c.resolved \ {e.fnk},
                         !.removedAt = Put(c.removedAt, e.fnk, T)],
               afterStop \cup first
               \cup V("C05.premature", ~LiveForUsAt(t, c.key, e.fnk, T + 1000), <<"removed while PTR, SRV and address are live", e.fnk>>))
      [] e.k = "SearchStopped" ->
           [s EXCEPT !.chan = Put(s.chan, e.ch, [c EXCEPT !.st = "stopped"]),
                     !.owedStop = s.owedStop \ {e.ch},
                     !.v = s.v \cup afterStop \cup first
                           \cup V("C13.stop-owed", e.ch \in s.owedStop, <<"SearchStopped that nobody asked for", e.ch>>)]
      [] OTHER -> s
  ELSE IF c.kind = "host" THEN
    CASE e.k = "SearchStarted" -> upd([c EXCEPT !.st = IF c.st = "fresh" THEN "started" ELSE c.st], afterStop)
      [] e.k = "AddressesFound" ->
           upd([c EXCEPT !.found = c.found \cup UNION {{<<x.ip, i>> : i \in Range(x.ifs)} : x \in AddrsOf(e)}],
               afterStop \cup first
               \cup V("C17.found-name", e.hostk = c.key, <<"event for another host", e.host, c.key>>)
               \cup V("C17.found", /\ Len(e.addrs) > 0
                                   /\ \A x \in AddrsOf(e) : \A i \in Range(x.ifs) :
                                         \E id \in Dom(t) : /\ IsAddrTy(id[1]) /\ id[2] = c.key /\ t[id].ip = x.ip /\ t[id].ifx = i
                                                            /\ T < t[id].exp,
                      <<"address not received (or expired) for that host", e.addrs>>))
      [] e.k = "AddressesRemoved" ->
           upd([c EXCEPT !.found = c.found \ UNION {{<<x.ip, i>> : i \in Range(x.ifs)} : x \in AddrsOf(e)}],
               afterStop \cup first
               \cup V("C17.removed-name", e.hostk = c.key, <<"event for another host", e.host, c.key>>)
               \cup V("C17.removed", \A x \in AddrsOf(e) : \A i \in Range(x.ifs) :
                                        ~\E id \in Dom(t) : /\ IsAddrTy(id[1]) /\ id[2] = c.key /\ t[id].ip = x.ip /\ t[id].ifx = i
                                                            /\ T + 1000 < t[id].exp /\ t[id].ttl # 0,
                      <<"address reported removed while its record is live", e.addrs>>))
      [] e.k = "SearchTimeout" ->
           [s EXCEPT !.chan = Put(s.chan, e.ch, [c EXCEPT !.st = "timedout", !.bound = FALSE, !.stoppedAt = T]),
                     !.owedStop = s.owedStop \cup {e.ch},
                     !.v = s.v \cup afterStop \cup first
                           \cup V("C17.timeout", c.deadline >= 0 /\ T >= c.deadline, <<"SearchTimeout before the deadline", c.deadline, T>>)]
      [] e.k = "SearchStopped" ->
           [s EXCEPT !.chan = Put(s.chan, e.ch, [c EXCEPT !.st = "stopped"]),
                     !.owedStop = s.owedStop \ {e.ch},
                     !.v = s.v \cup afterStop \cup first
                           \cup V("C13.stop-owed", e.ch \in s.owedStop, <<"SearchStopped that nobody asked for", e.ch>>)]
      [] OTHER -> s
  ELSE s

RECURSIVE FoldEv(_, _, _)
FoldEv(s, t, es) == IF es = <<>> THEN s ELSE FoldEv(StepEv(s, t, Head(es)), t, Tail(es))

(* --------------------- invariants whenever the daemon parks -------------- *)
(* instances whose full description arrived in packets that were for us and  *)
(* is live for more than one more second                                     *)
CompleteForUs(t, tyk, at) ==
  {t[p].tk : p \in {id \in Dom(t) : /\ id[1] = "PTR" /\ id[2] = tyk /\ t[id].forus /\ t[id].ttl # 0 /\ at + 1000 < t[id].exp
                                    /\ \E s \in Dom(t) : /\ s[1] = "SRV" /\ s[2] = t[id].tk /\ t[s].forus /\ t[s].ttl # 0 /\ at + 1000 < t[s].exp
                                                         /\ \E a \in Dom(t) : /\ IsAddrTy(a[1]) /\ a[2] = t[s].tk /\ t[a].forus
                                                                              /\ t[a].ttl # 0 /\ at + 1000 < t[a].exp
                                    /\ \E x \in Dom(t) : x[1] = "TXT" /\ x[2] = t[id].tk /\ t[x].forus /\ t[x].ttl # 0 /\ at + 1000 < t[x].exp}}

ParkInvariants(ch, t) ==
  UNION {
    LET c == ch[x] IN
    IF c.kind = "browse" /\ c.bound /\ c.st = "started" /\ ~c.cacheonly THEN
         V("C04.resolve", CompleteForUs(t, c.key, T) \subseteq c.resolved,
           <<"described by live received records but not resolved", CompleteForUs(t, c.key, T) \ c.resolved>>)
         \cup V("C05.expiry", \A f \in c.found : \E id \in Dom(t) : id[1] = "PTR" /\ id[2] = c.key /\ t[id].tk = f /\ T < t[id].exp,
                <<"PTR gone but no ServiceRemoved", {f \in c.found : ~\E id \in Dom(t) : id[1] = "PTR" /\ id[2] = c.key /\ t[id].tk = f /\ T < t[id].exp}>>)
         \* (while the PTR itself is in its last second the removal may come with the PTR's expiry)
         \cup V("C05.expiry-srv", \A f \in {g \in c.resolved : \E p \in Dom(t) : p[1] = "PTR" /\ p[2] = c.key /\ t[p].tk = g /\ T + 1000 < t[p].exp} :
                                     \E s \in Dom(t) : /\ s[1] = "SRV" /\ s[2] = f /\ T < t[s].exp
                                                                       /\ \E a \in Dom(t) : IsAddrTy(a[1]) /\ a[2] = t[s].tk /\ T < t[a].exp,
                <<"SRV or last address gone but no ServiceRemoved",
                  {f \in c.resolved : ~\E s \in Dom(t) : /\ s[1] = "SRV" /\ s[2] = f /\ T < t[s].exp
                                                         /\ \E a \in Dom(t) : IsAddrTy(a[1]) /\ a[2] = t[s].tk /\ T < t[a].exp}>>)
    ELSE IF c.kind = "host" /\ c.bound /\ c.st = "started" THEN
         V("C17.removed-owed", \A p \in c.found : \E id \in Dom(t) : /\ IsAddrTy(id[1]) /\ id[2] = c.key /\ t[id].ip = p[1] /\ t[id].ifx = p[2]
                                                                     /\ T < t[id].exp,
           <<"address expired or withdrawn but no AddressesRemoved",
             {p \in c.found : ~\E id \in Dom(t) : IsAddrTy(id[1]) /\ id[2] = c.key /\ t[id].ip = p[1] /\ t[id].ifx = p[2] /\ T < t[id].exp}>>)
         \cup V("C17.found-owed",
                \A id \in {y \in Dom(t) : IsAddrTy(y[1]) /\ y[2] = c.key /\ t[y].forus /\ t[y].ttl # 0 /\ T + 1000 < t[y].exp /\ t[y].at >= c.at} :
                   <<t[id].ip, t[id].ifx>> \in c.found,
                <<"address received for the host but not reported">>)
         \cup V("C17.timeout-owed", c.deadline < 0 \/ T < c.deadline, <<"resolver past its deadline without SearchTimeout", c.deadline, T>>)
    ELSE {}
    : x \in Dom(ch)}

Iter ==
  /\ Ev.e = "iter"
  /\ \E t1 \in {Ingest(tab, inbox)} :
     \E s1 \in {FoldCmd([tab |-> t1, chan |-> chan, cur |-> cur, owedStop |-> owedStop, down |-> down], cmds)} :
     \E s2 \in {FoldEv([chan |-> s1.chan, owedStop |-> s1.owedStop, v |-> {}], s1.tab, Ev.events)} :
       /\ tab' = s1.tab /\ chan' = s2.chan /\ cur' = s1.cur /\ down' = s1.down
       /\ owedStop' = s2.owedStop
       /\ viol' = viol \cup s2.v
                    \cup (IF Ev.alive THEN ParkInvariants(s2.chan, s1.tab) ELSE {})
                    \cup V("C13.stopped-once", s2.owedStop = {}, <<"SearchStopped owed but not delivered in the iteration of the stop", s2.owedStop>>)
       /\ hits' = hits \cup {"ev." \o Ev.events[i].k : i \in 1..Len(Ev.events)}
                       \cup (IF \E x \in Dom(s2.chan) : s2.chan[x].resolved # {} THEN {"C03.resolved"} ELSE {})
  /\ inbox' = <<>> /\ cmds' = <<>>
  /\ UNCHANGED scen

Reset == /\ Ev.e = "reset"
         /\ scen' = Ev.scen.id /\ tab' = <<>> /\ chan' = <<>> /\ cur' = <<>> /\ owedStop' = {} /\ down' = FALSE
         /\ inbox' = <<>> /\ cmds' = <<>>
         /\ UNCHANGED <<viol, hits>>
Call == /\ Ev.e = "call"
        /\ cmds' = Append(cmds, Ev)
        /\ UNCHANGED <<scen, tab, chan, cur, owedStop, down, inbox, viol, hits>>
Deliver == /\ Ev.e = "deliver"
           /\ inbox' = Append(inbox, Ev)
           /\ UNCHANGED <<scen, tab, chan, cur, owedStop, down, cmds, viol, hits>>
Skip == /\ Ev.e \in {"adv", "dead", "note", "spawn", "ifs"}
        /\ UNCHANGED <<scen, tab, chan, cur, owedStop, down, inbox, cmds, viol, hits>>

Init == /\ l = 1 /\ scen = 0 /\ tab = <<>> /\ chan = <<>> /\ cur = <<>> /\ owedStop = {} /\ down = FALSE
        /\ inbox = <<>> /\ cmds = <<>> /\ viol = {} /\ hits = {}
Next == l <= Len(Rec) /\ l' = l + 1 /\ (Reset \/ Call \/ Deliver \/ Skip \/ Iter)
Spec == Init /\ [][Next]_vars

Track == TLCSet(1, viol) /\ TLCSet(2, hits)
Accepted ==
  LET consumed == TLCGet("stats").diameter - 1 IN
  /\ PrintT(<<"RESULT", ToJson([consumed |-> consumed, total |-> Len(Rec), viol |-> TLCGet(1), hits |-> TLCGet(2)])>>)
  /\ consumed = Len(Rec)
  /\ TLCGet(1) = {}
=============================================================================
