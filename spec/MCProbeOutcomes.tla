--------------------------- MODULE MCProbeOutcomes ---------------------------
(* Every outcome ProbeMech.tla can settle in, per vector of start ticks: printed  *)
(* (one line per settled state) for the conformance of the real daemons' outcome   *)
(* with the model (family probecases, clause C08.outcome-model).                   *)
EXTENDS ProbeMech, TLC, Json
(* the mechanism does not care when the first claimant starts: vectors with minimum 0 *)
InitN == Init /\ \E d \in D : start[d] = 0
SpecN == InitN /\ [][Next]_vars
EmitOutcome == Settled => PrintT(<<"OUT", ToJson([start |-> [i \in 1..Cardinality(D) |-> start[i]], ren |-> [i \in 1..Cardinality(D) |-> ren[i]]])>>)
=============================================================================
