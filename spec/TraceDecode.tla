---------------------------- MODULE TraceDecode ----------------------------
(***************************************************************************)
(* C01 conformance, implementation -> specification.                       *)
(* Each trace line is one call of the crate's decoder on a datagram,       *)
(* recorded by the harness (child process + watchdog):                     *)
(*   [e |-> "decode", id, kind, b : bytes, out : "ok"|"err"|"panic"|"hang",*)
(*    ms, q, an, ns, ar : what the decoder returned (names as the bytes of  *)
(*    the strings it produced)]                                             *)
(* Property-level clauses (a failure is a C01 violation):                   *)
(*   C01.outcome : the call ended with a message or an error               *)
(*   C01.time    : within the (generous) wall-clock budget                  *)
(*   C01.memory  : peak heap use within 64 bytes per datagram byte + 8 KB    *)
(*   C01.namelen : no produced name is longer than the datagram            *)
(*   C01.inside  : a returned message is what Wire!ParseMsg reads from the  *)
(*                 bytes of the datagram (same records, same sections)      *)
(* Mechanism-level (drift, reported as NOTE, never as a violation):         *)
(*   the outcome equals DecodeMech!MechParse(b), which is the model that    *)
(*   TLC has checked exhaustively for termination and index safety.         *)
(***************************************************************************)
EXTENDS DecodeMech, CrateView, TLC, TLCExt, Json, IOUtils

Rec == ndJsonDeserialize(IOEnv.TRACE)
TimeBudgetMs == 1500
(* peak heap use of the call (decoder plus the view the facade builds of its result), as counted by the harness's         *)
(* allocator: observed at most 22 bytes per byte of datagram plus 1 KB over 370 000 datagrams; the budget is three times  *)
(* that - what matters is that it follows the size of the datagram and not a count the datagram claims in its header      *)
MemPerByte == 64
MemBase == 8192

VARIABLES l, viol, drift
vars == <<l, viol, drift>>

Ev == Rec[l]
Chk(tag, cond) == IF cond THEN {} ELSE {<<tag, l, Ev.id>>}

(* mechanism conformance *)
MechSame(c, r) ==
  /\ c.n = Dotted(r.name) /\ c.ty = r.ty /\ c.cls = r.class /\ c.fl = r.flush /\ c.ttl4 = r.ttl4
  /\ CASE r.rd.kind = "name"  -> Has(c, "t") /\ c.t = Dotted(r.rd.target)
       [] r.rd.kind = "srv"   -> Has(c, "t") /\ c.t = Dotted(r.rd.target) /\ c.srv = <<r.rd.prio, r.rd.weight, r.rd.port>>
       [] r.rd.kind = "bytes" -> Has(c, "x") /\ c.x = r.rd.bytes
       [] r.rd.kind = "nsec"  -> TRUE
       [] OTHER -> TRUE
MechSection(cs, rs) == Len(cs) = Len(rs) /\ \A i \in 1..Len(cs) : MechSame(cs[i], rs[i])
MechAgrees(e) ==
  LET m == MechParse(e.b) IN
  IF e.out = "ok"
  THEN /\ m.pc = "ok" /\ Len(e.q) = Len(m.qs)
       /\ \A i \in 1..Len(e.q) : e.q[i].n = Dotted(m.qs[i].name) /\ e.q[i].ty = m.qs[i].ty
       /\ MechSection(e.an, m.an) /\ MechSection(e.ns, m.ns) /\ MechSection(e.ar, m.ar)
  ELSE IF e.out = "err" THEN m.pc = "err"
  ELSE IF e.out = "panic" THEN m.pc = "oob"
  ELSE m.pc = "hang"

Decode ==
  /\ Ev.e = "decode"
  /\ viol' = viol \cup Chk("C01.outcome", Ev.out \in {"ok", "err"})
                  \cup Chk("C01.time", Ev.ms <= TimeBudgetMs)
                  \cup Chk("C01.memory", ("mem" \in DOMAIN Ev) => Ev.mem <= MemPerByte * Len(Ev.b) + MemBase)
                  \cup (IF Ev.out = "ok"
                        THEN Chk("C01.namelen", MaxNameLen(Ev) <= Len(Ev.b))
                             \cup Chk("C01.inside", Inside(Ev))
                        ELSE {})
  /\ drift' = drift \cup (IF MechAgrees(Ev) THEN {} ELSE {<<"mech", l, Ev.id>>})

Init == l = 1 /\ viol = {} /\ drift = {}
Next == l <= Len(Rec) /\ l' = l + 1 /\ Decode
Spec == Init /\ [][Next]_vars

Track == TLCSet(1, viol) /\ TLCSet(2, drift)
Accepted ==
  LET consumed == TLCGet("stats").diameter - 1 IN
  /\ PrintT(<<"RESULT", ToJson([consumed |-> consumed, total |-> Len(Rec),
                                viol |-> TLCGet(1), drift |-> TLCGet(2)])>>)
  /\ consumed = Len(Rec)
  /\ TLCGet(1) = {}
=============================================================================
