SPECIFICATION Spec
CONSTANTS
  MaxArr = 3
  MaxTime = 2500
  EagerKeys = FALSE
  SplitByFlush = FALSE
  KeepSubs = TRUE
  FlushVaries = TRUE
  Kinds = {"P", "PS", "S1"}
  TTLs = {0, 2}
INVARIANTS NeverLonger NotEarlier Present WellFormed KeysNeeded SubsNeeded
CHECK_DEADLOCK FALSE
