SPECIFICATION Spec
CONSTANTS
  PtrRule = "decreasing"
  CharStrGuard = TRUE
  K = 4
INVARIANTS Terminates StepBound Bounded Whole EmitCase
CHECK_DEADLOCK FALSE
