------------------------------ MODULE Lifecycle ------------------------------
(***************************************************************************)
(* Life cycle of the daemon as seen through its handles (C14): client       *)
(* threads put commands into a bounded queue (try_send: `Again` when full,  *)
(* `DaemonShutdown` once the receiver is gone); the daemon thread takes     *)
(* them one at a time.  Exit is served inside the command loop: clean-up    *)
(* (goodbye for every registered service, SearchStopped on every open       *)
(* search channel), then the commands still queued are dropped (their       *)
(* reply / event channels close), the receiver is dropped, and only then    *)
(* is Shutdown reported on the Exit's reply channel; finally the daemon's   *)
(* state goes away and with it every sender it still holds.                 *)
(*                                                                          *)
(* One step function per atomic step of the code (a try_send; a try_recv    *)
(* and the execution of what it returned; the look at the empty queue; the  *)
(* drop of the receiver; the reply; the drop of the state), so that TLC     *)
(* explores every interleaving with client calls, and so that the trace     *)
(* specification (TraceLifecycle.tla) can run the very same functions over  *)
(* what a real daemon did.  Two switches model the code as it was:          *)
(*   Drain = FALSE : Exit returns without dropping the queued commands      *)
(*                   (dropping the receiver does not drop what is queued:   *)
(*                   NoDangling fails);                                     *)
(*   Flag  = FALSE : no "closing" flag: a try_send that falls between the   *)
(*                   daemon's last look at the queue and the drop of the    *)
(*                   receiver leaves a command in the channel for as long   *)
(*                   as a handle lives (NoDangling fails).  With the flag   *)
(*                   (set before the queue is drained, read by the caller   *)
(*                   AFTER its try_send) such a caller gets DaemonShutdown  *)
(*                   and nobody waits on the channels of that command.      *)
(***************************************************************************)
EXTENDS Naturals, Sequences, FiniteSets
CONSTANTS Cap, Drain, Flag

(* reply : a command with a one-shot reply channel (GetMetrics, Unregister, ...)        *)
(* status: status(): GetStatus, or answered on the spot once the channel is disconnected *)
(* sub   : a command carrying the sender of a search channel (Browse, ResolveHostname)   *)
(* mon   : a command carrying the sender of a channel that is never told to stop (Monitor) *)
(* reg   : register a service;  fire : a command without any channel;  exit : shutdown() *)
Kinds == {"reply", "status", "sub", "mon", "reg", "fire", "exit"}
HasReply(k) == k \in {"reply", "status", "exit"}
HasChan(k)  == k \in {"sub", "mon"}
Ext(f, k, v) == [x \in DOMAIN f \cup {k} |-> IF x = k THEN v ELSE f[x]]

(* the state: one record                                                     *)
(*  queue    : call ids in the command channel                               *)
(*  rcv      : the receiver of the command channel is alive                  *)
(*  dstate   : "run", "exiting", "draining", "drained", "dropped", "answered", "gone" *)
(*  closing  : the flag shared with the handles                              *)
(*  dropped  : calls whose caller got an error after its command was queued  *)
(*             (it has let go of the receiving ends: nobody waits on them)   *)
(*  held     : call id of the Exit being served (0: none)                    *)
(*  calls    : sequence of [kind, res, after]; res \in {"ok","Again","DaemonShutdown"}, or "pending" *)
(*             between the try_send and the look at the flag                 *)
(*  chan     : call id -> "none" | "Running" | "Shutdown" | "closed"  (one-shot reply channels) *)
(*  sub      : call id -> [ev, closed, where, mon]  where \in {"queue","daemon","stopped","dropped"} *)
(*  svcs     : registered services (call ids); regd : ever registered; byes : withdrawn *)
(*  cleanups : number of clean-ups run;  seen : some client has received Shutdown *)
Init0 == [queue |-> <<>>, rcv |-> TRUE, dstate |-> "run", held |-> 0, calls |-> <<>>, chan |-> <<>>, sub |-> <<>>,
          svcs |-> {}, regd |-> {}, byes |-> {}, cleanups |-> 0, seen |-> FALSE, closing |-> FALSE, dropped |-> {}]

(* ------------------------------- clients -------------------------------- *)
Fast(s, k)  == k = "status" /\ ~s.rcv
(* first step of a call: the try_send (status(): the look at is_disconnected) *)
SendRes(s, k) == IF Fast(s, k) THEN "ok" ELSE IF ~s.rcv THEN "DaemonShutdown" ELSE IF Len(s.queue) >= Cap THEN "Again"
                 ELSE IF Flag THEN "pending" ELSE "ok"
SendF(s, k) ==
  LET id == Len(s.calls) + 1  res == SendRes(s, k)  queued == res \in {"ok", "pending"} /\ ~Fast(s, k) IN
  [s EXCEPT !.calls = Append(@, [kind |-> k, res |-> res, after |-> s.seen]),
            !.queue = IF queued THEN Append(@, id) ELSE @,
            !.chan  = IF HasReply(k) /\ (queued \/ Fast(s, k)) THEN Ext(@, id, IF Fast(s, k) THEN "Shutdown" ELSE "none") ELSE @,
            !.sub   = IF HasChan(k) /\ queued THEN Ext(@, id, [ev |-> <<>>, closed |-> FALSE, where |-> "queue", mon |-> k = "mon"]) ELSE @]
(* second step: the look at the flag, after the try_send                      *)
CanCheck(s, id) == id \in 1..Len(s.calls) /\ s.calls[id].res = "pending"
CheckF(s, id) == IF s.closing THEN [s EXCEPT !.calls[id].res = "DaemonShutdown", !.dropped = @ \cup {id}]
                 ELSE [s EXCEPT !.calls[id].res = "ok"]
(* both steps at once (a caller that is not interleaved with the daemon)      *)
CallF(s, k) == LET a == SendF(s, k)  id == Len(a.calls) IN IF CanCheck(a, id) THEN CheckF(a, id) ELSE a
ResOf(s, k) == LET a == CallF(s, k) IN a.calls[Len(a.calls)].res
(* a client reads Shutdown from a reply channel                              *)
CanObserve(s) == ~s.seen /\ \E id \in DOMAIN s.chan : s.chan[id] = "Shutdown"
ObserveF(s) == [s EXCEPT !.seen = TRUE]

(* -------------------------------- daemon -------------------------------- *)
(* the clean-up tells every open search to stop and lets go of its sender: the channel closes behind the event *)
StopAll(sb) == [x \in DOMAIN sb |-> IF sb[x].where = "daemon" /\ ~sb[x].mon
                                    THEN [sb[x] EXCEPT !.ev = Append(@, "SearchStopped"), !.closed = TRUE, !.where = "stopped"] ELSE sb[x]]
CanTake(s) == s.dstate = "run" /\ s.queue # <<>>
TakeF(s) ==
  LET id == Head(s.queue)  k == s.calls[id].kind IN
  IF k = "exit"
  THEN [s EXCEPT !.queue = Tail(@), !.dstate = "exiting", !.held = id, !.cleanups = @ + 1,
                 !.byes = @ \cup s.svcs, !.svcs = {}, !.sub = StopAll(@)]
  ELSE [s EXCEPT !.queue = Tail(@),
                 !.chan = IF HasReply(k) THEN [@ EXCEPT ![id] = "Running"] ELSE @,
                 !.sub  = IF HasChan(k) THEN [@ EXCEPT ![id] = [ev |-> IF k = "mon" THEN <<>> ELSE <<"SearchStarted">>, closed |-> FALSE,
                                                               where |-> "daemon", mon |-> k = "mon"]] ELSE @,
                 !.svcs = IF k = "reg" THEN @ \cup {id} ELSE @,
                 !.regd = IF k = "reg" THEN @ \cup {id} ELSE @]
(* a command dropped unexecuted: the channels it carries close               *)
(* the flag goes up before the queue is drained                               *)
CanFlag(s) == s.dstate = "exiting"
FlagF(s) == [s EXCEPT !.closing = Flag, !.dstate = "draining"]
CanDrainOne(s) == s.dstate = "draining" /\ Drain /\ s.queue # <<>>
DrainOneF(s) ==
  LET id == Head(s.queue) IN
  [s EXCEPT !.queue = Tail(@),
            !.chan = IF id \in DOMAIN @ THEN [@ EXCEPT ![id] = "closed"] ELSE @,
            !.sub  = IF id \in DOMAIN @ THEN [@ EXCEPT ![id] = [@ EXCEPT !.closed = TRUE, !.where = "dropped"]] ELSE @]
CanDrainDone(s) == s.dstate = "draining" /\ (~Drain \/ s.queue = <<>>)
DrainDoneF(s) == [s EXCEPT !.dstate = "drained"]
CanDropRcv(s) == s.dstate = "drained"
DropRcvF(s) == [s EXCEPT !.rcv = FALSE, !.dstate = "dropped"]
CanAnswer(s) == s.dstate = "dropped"
AnswerF(s) == [s EXCEPT !.chan = [@ EXCEPT ![s.held] = "Shutdown"], !.dstate = "answered"]
CanDropState(s) == s.dstate = "answered"
DropStateF(s) == [s EXCEPT !.sub = [x \in DOMAIN @ |-> IF @[x].where = "daemon" THEN [@[x] EXCEPT !.closed = TRUE] ELSE @[x]],
                           !.dstate = "gone"]

(* ---------------- big steps: what one loop iteration does ---------------- *)
RECURSIVE TakeAll(_)
TakeAll(s) == IF CanTake(s) THEN TakeAll(TakeF(s)) ELSE s
RECURSIVE DrainAll(_)
DrainAll(s) == IF CanDrainOne(s) THEN DrainAll(DrainOneF(s)) ELSE s
(* up to the look at the empty queue ...                                     *)
ToWindow(s) == LET a == TakeAll(s) IN IF a.dstate = "exiting" THEN DrainDoneF(DrainAll(FlagF(a))) ELSE a
(* ... and from there to the end of the thread                               *)
FromWindow(s) == IF s.dstate = "drained" THEN DropStateF(AnswerF(DropRcvF(s))) ELSE s
Iteration(s) == FromWindow(ToWindow(s))

(* ------------------------------ properties ------------------------------ *)
CleanupOnce(s) == s.cleanups <= 1
(* everything registered is withdrawn, every open search is told, before Shutdown is reported *)
CleanBeforeShutdown(s) ==
  \A id \in DOMAIN s.chan : (s.calls[id].kind = "exit" /\ s.chan[id] = "Shutdown")
     => /\ s.byes = s.regd /\ s.svcs = {}
        /\ \A x \in DOMAIN s.sub : ~(s.sub[x].where = "daemon" /\ ~s.sub[x].mon)
        /\ \A x \in DOMAIN s.sub : s.sub[x].where = "stopped" => s.sub[x].ev = <<"SearchStarted", "SearchStopped">> /\ s.sub[x].closed
        /\ ~s.rcv
OneShutdownReply(s) == Cardinality({id \in DOMAIN s.chan : s.calls[id].kind = "exit" /\ s.chan[id] = "Shutdown"}) <= 1
(* once a caller has received Shutdown: every later call fails with DaemonShutdown, status() says Shutdown *)
Final(s) == \A id \in 1..Len(s.calls) : s.calls[id].after =>
              \/ s.calls[id].res = "DaemonShutdown"
              \/ (s.calls[id].kind = "status" /\ s.calls[id].res = "ok" /\ s.chan[id] = "Shutdown")
(* a search channel follows its protocol whatever happens                     *)
SubProtocol(s) == \A x \in DOMAIN s.sub : s.sub[x].ev \in {<<>>, <<"SearchStarted">>, <<"SearchStarted", "SearchStopped">>}
(* nobody is left waiting: when the daemon is gone every reply channel has    *)
(* yielded a value or is closed, every event channel is closed                *)
(* (a caller that got an error has let go of its ends; a call still between   *)
(* its two steps has not returned yet)                                        *)
NoDangling(s) == (s.dstate = "gone" /\ \A i \in 1..Len(s.calls) : s.calls[i].res # "pending")
                   => /\ \A id \in DOMAIN s.chan \ s.dropped : s.chan[id] # "none"
                      /\ \A x \in DOMAIN s.sub \ s.dropped : s.sub[x].closed
(* ... and while it runs, what it has taken it has answered                   *)
AnsweredWhenTaken(s) == \A id \in DOMAIN s.chan : (s.chan[id] = "none" /\ s.dstate = "run") => \E i \in 1..Len(s.queue) : s.queue[i] = id
=============================================================================
