SPECIFICATION Spec
CONSTANTS
  MaxArr = 3
  MaxTime = 3000
  EagerKeys = FALSE
  SplitByFlush = FALSE
  KeepSubs = FALSE
  FlushVaries = TRUE
  Kinds = {"P", "PS", "S1"}
  TTLs = {0, 1, 2}
INVARIANTS NeverLonger NotEarlier Present WellFormed KeysNeeded SubsNeeded
CHECK_DEADLOCK FALSE
