------------------------------- MODULE Compare -------------------------------
(***************************************************************************)
(* RFC 6762 section 8.2 / 8.2.1 as the statement of C08 words it: records   *)
(* are compared by class, then type, then RDATA (bytewise, a proper prefix  *)
(* is smaller); two probers compare their record lists pairwise in order,   *)
(* then by number of records.  A record is [cls, ty, rd : Seq(byte)].        *)
(***************************************************************************)
EXTENDS Naturals, Sequences, FiniteSets

RECURSIVE CmpBytes(_, _)
CmpBytes(a, b) ==     \* -1, 0, 1 encoded as "lt", "eq", "gt"
  IF a = <<>> /\ b = <<>> THEN "eq"
  ELSE IF a = <<>> THEN "lt"
  ELSE IF b = <<>> THEN "gt"
  ELSE IF Head(a) < Head(b) THEN "lt"
  ELSE IF Head(a) > Head(b) THEN "gt"
  ELSE CmpBytes(Tail(a), Tail(b))

CmpNum(x, y) == IF x < y THEN "lt" ELSE IF x > y THEN "gt" ELSE "eq"
Cmp(r1, r2) == IF CmpNum(r1.cls, r2.cls) # "eq" THEN CmpNum(r1.cls, r2.cls)
               ELSE IF CmpNum(r1.ty, r2.ty) # "eq" THEN CmpNum(r1.ty, r2.ty)
               ELSE CmpBytes(r1.rd, r2.rd)

RECURSIVE CmpLists(_, _)
CmpLists(mine, theirs) ==
  IF mine = <<>> /\ theirs = <<>> THEN "eq"
  ELSE IF mine = <<>> THEN "lt"
  ELSE IF theirs = <<>> THEN "gt"
  ELSE IF Cmp(Head(mine), Head(theirs)) # "eq" THEN Cmp(Head(mine), Head(theirs))
  ELSE CmpLists(Tail(mine), Tail(theirs))

(* the prober whose list is smaller defers (waits a second and probes again) *)
Loses(mine, theirs) == CmpLists(mine, theirs) = "lt"
Flip(c) == IF c = "lt" THEN "gt" ELSE IF c = "gt" THEN "lt" ELSE "eq"
=============================================================================
