------------------------------- MODULE MCCache -------------------------------
(***************************************************************************)
(* The cache mechanism (Cache.tla, which the real DnsCache is replayed       *)
(* against) refines the statement-level table of the monitors (Heard.tla):   *)
(* over every history of arrivals (PTR, two SRV and two address records of   *)
(* one instance / host, TTL 0, 1, 2 or 4 s, with and without the cache-flush *)
(* bit, in packets for us or not), evictions and verify requests at any       *)
(* instant on a 500 ms grid,                                                  *)
(*   NeverLonger  no stored record outlives the lifetime the statements give  *)
(*                it (C03 C11: TTL, goodbye, cache-flush, verify);            *)
(*   NotEarlier   ... nor is its life cut short;                              *)
(*   Present      a record that was received for us and is within its life     *)
(*                is stored (C04 C17);                                         *)
(*   Reported     eviction reports exactly the instances whose PTR or last    *)
(*                SRV ran out, and the hosts of the addresses that ran out     *)
(*                (asserted in the eviction step);                             *)
(* and on the mechanism alone: WellFormed, KeysNeeded, SubsNeeded (C20).      *)
(***************************************************************************)
EXTENDS Naturals, Sequences, FiniteSets, TLC
CONSTANTS MaxArr, MaxTime, EagerKeys, SplitByFlush, KeepSubs, FlushVaries, Kinds, TTLs
C == INSTANCE Cache
H == INSTANCE Heard

TY == "_t."   IN1 == "i._t."   HO == "h."   SUBTY == "_s._sub._t."
(* kind -> type, owner, rdata key, target, subtype *)
Def(k) == CASE k = "P"  -> [ty |-> "PTR", n |-> TY,    rk |-> IN1,   tg |-> IN1, sub |-> ""]
            [] k = "PS" -> [ty |-> "PTR", n |-> SUBTY, rk |-> IN1,   tg |-> IN1, sub |-> "_s"]
            [] k = "S1" -> [ty |-> "SRV", n |-> IN1,   rk |-> "h.:1", tg |-> HO, sub |-> ""]
            [] k = "S2" -> [ty |-> "SRV", n |-> IN1,   rk |-> "h.:2", tg |-> HO, sub |-> ""]
            [] k = "A1" -> [ty |-> "A",   n |-> HO,    rk |-> "ip1", tg |-> "",  sub |-> ""]
            [] k = "A2" -> [ty |-> "A",   n |-> HO,    rk |-> "ip2", tg |-> "",  sub |-> ""]
            [] k = "N"  -> [ty |-> "NSEC", n |-> IN1,  rk |-> "n",   tg |-> "",  sub |-> ""]
CRec(k, ttl, fl) == LET d == Def(k) IN [ty |-> d.ty, n |-> d.n, nl |-> d.n, rk |-> d.rk, tg |-> d.tg, tgl |-> d.tg, sub |-> d.sub, ttl |-> ttl, fl |-> fl]
Nm(s) == [k |-> s, u |-> s, s |-> s, sk |-> s]
HRec(k, ttl, fl) == LET d == Def(k) IN
   IF d.tg # "" THEN [ty |-> d.ty, n |-> Nm(d.n), rk |-> d.rk, ttl |-> ttl, fl |-> fl, t |-> Nm(d.tg), po |-> 1]
   ELSE [ty |-> d.ty, n |-> Nm(d.n), rk |-> d.rk, ttl |-> ttl, fl |-> fl, ip |-> d.rk]
HId(x) == <<x[3], x[4], x[5], x[7]>>
(* a record kind has one flush bit for life unless FlushVaries                *)
FlOf(k) == k \notin {"P", "PS"}

VARIABLES c, tab, now, narr
vars == <<c, tab, now, narr>>
Init == c = C!Empty /\ tab = <<>> /\ now = 0 /\ narr = 0
Tick == now < MaxTime /\ now' = now + 500 /\ UNCHANGED <<c, tab, narr>>
Recv(k, ttl, fl, fu) ==
  /\ narr < MaxArr /\ narr' = narr + 1
  /\ c' = C!Add(c, CRec(k, ttl, fl), 2, now, fu).c
  /\ tab' = H!Arrive(tab, HRec(k, ttl, fl), 2, now, fu)
  /\ UNCHANGED now
(* what an eviction reports, against the content before it (checked in the step: no history variable) *)
Reported(p, t, rep) ==
  LET ranOut(x) == t >= p.recs[x].expires
      ptrOut == {<<x[2], p.recs[x].tg>> : x \in {y \in C!Ids(p) : y[1] = "ptr" /\ ranOut(y)}}
      srvOut == {<<x[2], p.recs[x].tg>> : x \in {y \in C!Ids(p) : y[1] = "ptr" /\ C!Under(p, "srv", p.recs[y].tg) # {}
                                                   /\ \A s \in C!Under(p, "srv", p.recs[y].tg) : ranOut(s)}}
  IN /\ ptrOut \cup srvOut \subseteq rep.svc
     /\ (~EagerKeys => rep.svc \subseteq ptrOut \cup srvOut)
     /\ rep.addr = {p.recs[x].name : x \in {y \in C!Ids(p) : y[1] = "addr" /\ ranOut(y)}}
EvictStep == /\ LET r == C!Evict(c, now) IN Assert(Reported(c, now, r), <<"Reported", c, now, r.svc, r.addr>>) /\ c' = r.c
             /\ UNCHANGED <<tab, now, narr>>
VerifyStep == /\ \E x \in C!Ids(c) : x[1] = "srv"
              /\ c' = C!Verify(c, IN1, now + 1000).c
              /\ tab' = H!Shorten(tab, IN1, now + 1000, now)
              /\ UNCHANGED <<now, narr>>
Next == \/ Tick \/ EvictStep \/ VerifyStep
        \/ \E k \in Kinds, ttl \in TTLs, fl \in BOOLEAN, fu \in BOOLEAN :
              (FlushVaries \/ fl = FlOf(k)) /\ Recv(k, ttl, fl, fu)
Spec == Init /\ [][Next]_vars

NeverLonger == \A x \in C!Ids(c) : c.recs[x].expires <= tab[HId(x)].exp
NotEarlier  == \A x \in C!Ids(c) : c.recs[x].expires >= tab[HId(x)].vexp
Present     == \A id \in DOMAIN tab : (tab[id].forus /\ now < tab[id].vexp) => \E x \in C!Ids(c) : HId(x) = id
WellFormed == C!WellFormed(c)
KeysNeeded == C!KeysNeeded(c)
SubsNeeded == C!SubsNeeded(c)
=============================================================================
