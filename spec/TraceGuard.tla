----------------------------- MODULE TraceGuard -----------------------------
(***************************************************************************)
(* Trace monitor for C15 over the driver families `apiguard` and `hostile`: *)
(* whatever is passed to a public function and whatever arrives from the    *)
(* network,                                                                  *)
(*   C15.caller  - the calling thread does not panic;                        *)
(*   C15.daemon  - the daemon thread does not end (no panic, no exit) unless *)
(*                 shutdown() was called, and does not get stuck in an       *)
(*                 iteration;                                                *)
(*   C15.serving - at the end it still answers status() with Running and a   *)
(*                 fresh browse with SearchStarted.                          *)
(* The last input before a failure is reported with it.                      *)
(***************************************************************************)
EXTENDS Integers, Sequences, FiniteSets, TLC, TLCExt, Json, IOUtils

Rec == ndJsonDeserialize(IOEnv.TRACE)
VARIABLES l, scen, lastIn, down, deadSeen, viol, hits
vars == <<l, scen, lastIn, down, deadSeen, viol, hits>>
Ev == Rec[l]
V(tag, cond, extra) == IF cond THEN {} ELSE {<<tag, l, scen, extra>>}

(* what the failing input was, in words (the first element is the finding's identity) *)
Describe(x) == IF x.e = "call" THEN <<"call", x.fn>> ELSE IF x.e = "deliver" THEN <<"datagram", x.origin>> ELSE <<"start">>

Call == /\ Ev.e = "call"
        /\ viol' = viol \cup V("C15.caller", Ev.res # "panic", <<"the calling thread panicked", Ev.fn, scen>>)
        /\ lastIn' = Ev
        /\ down' = (down \/ (Ev.fn = "shutdown" /\ Ev.res = "ok"))
        /\ hits' = hits \cup {"C15.call"} \cup (IF Ev.res \in {"Msg", "Err", "ParseIpAddr"} THEN {"C15.refused"} ELSE {})
                        \cup (IF Ev.res = "ok" THEN {"C15.accepted"} ELSE {})
        /\ UNCHANGED <<scen, deadSeen>>
Deliver == /\ Ev.e = "deliver"
           /\ lastIn' = Ev
           /\ hits' = hits \cup {"C15.datagram"} \cup (IF ~Ev.ok THEN {"C15.malformed"} ELSE {})
           /\ UNCHANGED <<scen, down, deadSeen, viol>>
Iter == /\ Ev.e = "iter"
        /\ viol' = viol \cup (IF deadSeen THEN {} ELSE
                              V("C15.daemon", (Ev.alive /\ ~Ev.panicked /\ ~Ev.hung) \/ down,
                                <<IF Ev.hung THEN "the daemon thread got stuck in an iteration"
                                  ELSE IF Ev.panicked THEN "the daemon thread panicked" ELSE "the daemon thread ended", Describe(lastIn), scen>>))
        /\ deadSeen' = (deadSeen \/ ~Ev.alive)
        /\ hits' = hits \cup (IF \E j \in 1..Len(Ev.events) : Ev.events[j].k = "Error" THEN {"C15.error-event"} ELSE {})
                        \cup (IF \E j \in 1..Len(Ev.events) : Ev.events[j].k = "NameChange" THEN {"C15.renamed"} ELSE {})
        /\ UNCHANGED <<scen, lastIn, down>>
Probe == /\ Ev.e = "probe"
         /\ viol' = viol \cup (IF deadSeen \/ down THEN {} ELSE
                               V("C15.serving", Ev.alive /\ Ev.running /\ Ev.started,
                                 <<"the daemon no longer serves requests", Ev.alive, Ev.running, Ev.started, Describe(lastIn), scen>>))
         /\ hits' = hits \cup {"C15.probe"}
         /\ UNCHANGED <<scen, lastIn, down, deadSeen>>
Reset == /\ Ev.e = "reset" /\ scen' = Ev.scen /\ lastIn' = Ev /\ down' = FALSE /\ deadSeen' = FALSE /\ UNCHANGED <<viol, hits>>
Skip == /\ Ev.e \in {"adv", "dead", "note", "end", "spawn", "ifs", "final", "names"}
        /\ UNCHANGED <<scen, lastIn, down, deadSeen, viol, hits>>
Init == l = 1 /\ scen = [id |-> 0] /\ lastIn = [e |-> "none"] /\ down = FALSE /\ deadSeen = FALSE /\ viol = {} /\ hits = {}
Next == l <= Len(Rec) /\ l' = l + 1 /\ (Reset \/ Skip \/ Call \/ Deliver \/ Iter \/ Probe)
Spec == Init /\ [][Next]_vars
Track == TLCSet(1, viol) /\ TLCSet(2, hits)
Accepted ==
  LET consumed == TLCGet("stats").diameter - 1 IN
  /\ PrintT(<<"RESULT", ToJson([consumed |-> consumed, total |-> Len(Rec), viol |-> TLCGet(1), hits |-> TLCGet(2)])>>)
  /\ consumed = Len(Rec)
  /\ TLCGet(1) = {}
=============================================================================
