SPECIFICATION Spec
CONSTANTS
  EagerKeys = FALSE
  SplitByFlush = FALSE
  KeepSubs = FALSE
CONSTRAINT Track
POSTCONDITION Accepted
CHECK_DEADLOCK FALSE
