SPECIFICATION Spec
CONSTANTS
  PtrRule = "start"
  CharStrGuard = FALSE
CONSTRAINT Track
POSTCONDITION Accepted
CHECK_DEADLOCK FALSE
