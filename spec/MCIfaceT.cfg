SPECIFICATION Spec
CONSTANTS MaxLen = 3
          Emit = FALSE
INVARIANTS Twin Default LastAll NoMatch LastWins AddrIsIfFam
CHECK_DEADLOCK FALSE
