----------------------------- MODULE MCApiGuard -----------------------------
(* Enumerates the argument space of ApiGuard.tla as cases for the replay on  *)
(* a real daemon (driver family `apiguard`).                                 *)
EXTENDS ApiGuard, TLC, Json
VARIABLES fn, labels, suffix
One == {<<Label(n, f)>> : n \in Lens, f \in Fills}
Two == {<<Label(n, f), Label(m, g)>> : n \in Lens2, f \in Fills2, m \in Lens2, g \in Fills2}
Init == fn \in Fns /\ labels \in One \cup Two /\ suffix \in Suffixes
Next == UNCHANGED <<fn, labels, suffix>>
Spec == Init /\ [][Next]_<<fn, labels, suffix>>
EmitCase == PrintT(<<"CASE", ToJson([fn |-> fn, labels |-> labels, suffix |-> suffix, enc |-> Encodable(labels, suffix)])>>)
=============================================================================
