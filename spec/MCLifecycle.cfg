SPECIFICATION Spec
CONSTANTS Cap = 2
          MaxCalls = 4
          Drain = TRUE
          Flag = FALSE
          Window = FALSE
INVARIANTS InvCleanupOnce InvCleanBeforeShutdown InvOneShutdownReply InvFinal InvSubProtocol InvNoDangling InvAnsweredWhenTaken InvBigStep
PROPERTIES ExitServed
CHECK_DEADLOCK FALSE
