SPECIFICATION Spec
CONSTANTS
  PtrRule = "decreasing"
  CharStrGuard = TRUE
  Alphabet = {0, 1, 2, 3, 64, 65, 192, 12}
  EmitMax = 4
  MaxLen = 5
INVARIANTS EmitCase NoPanic NoHang InsideRdata AgreesWithOracle
CHECK_DEADLOCK FALSE
