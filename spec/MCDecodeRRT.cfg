SPECIFICATION Spec
CONSTANTS
  PtrRule = "decreasing"
  CharStrGuard = TRUE
  Alphabet = {0, 1, 2, 3, 64, 65, 192, 12}
  MaxLen = 5
INVARIANTS NoPanic NoHang InsideRdata AgreesWithOracle
CHECK_DEADLOCK FALSE
