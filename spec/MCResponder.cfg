SPECIFICATION Spec
INVARIANTS OnlyAnnounced NoLeak MustSubMay HalfRule SubnetArith
CHECK_DEADLOCK FALSE
