SPECIFICATION Spec
CONSTANTS
  PtrRule = "decreasing"
  CharStrGuard = TRUE
  Alphabet = {0, 1, 2, 3, 64, 192}
  MaxLen = 5
INVARIANTS TypeOK Bounded StepBound InsideData AgreesWithOracle
PROPERTY Terminates
CHECK_DEADLOCK FALSE
