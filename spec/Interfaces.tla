----------------------------- MODULE Interfaces -----------------------------
(***************************************************************************)
(* Which addresses of the host's interface table a daemon uses (C18):      *)
(* the enable / disable selections made through the API, in call order,     *)
(* the last matching one winning, evaluated over whatever the table holds   *)
(* at the moment (so that they also apply to interfaces that show up        *)
(* later).  Pure operators.                                                 *)
(*                                                                          *)
(* sys  : sequence of [name, idx, up, addrs : Seq([ip, o, p, v4, lo])]      *)
(* sels : sequence of [en : BOOLEAN, kind : [k, name, ip, idx]]             *)
(*        k \in {"All","IPv4","IPv6","Name","Addr","LoopbackV4",            *)
(*               "LoopbackV6","IndexV4","IndexV6"}                          *)
(***************************************************************************)
EXTENDS Naturals, Sequences, FiniteSets

RangeI(s) == {s[i] : i \in 1..Len(s)}

(* one element per (interface, address) pair of the interfaces that are up  *)
Flat(sys) ==
  UNION {{[name |-> x.name, idx |-> x.idx, ip |-> a.ip, o |-> a.o, p |-> a.p, v4 |-> a.v4, lo |-> a.lo]
            : a \in RangeI(x.addrs)} : x \in {y \in RangeI(sys) : y.up}}

Matches(k, a) ==
  CASE k.k = "All"        -> TRUE
    [] k.k = "IPv4"       -> a.v4
    [] k.k = "IPv6"       -> ~a.v4
    [] k.k = "Name"       -> a.name = k.name
    [] k.k = "Addr"       -> a.ip = k.ip
    [] k.k = "LoopbackV4" -> a.lo /\ a.v4
    [] k.k = "LoopbackV6" -> a.lo /\ ~a.v4
    [] k.k = "IndexV4"    -> a.idx = k.idx /\ a.v4
    [] k.k = "IndexV6"    -> a.idx = k.idx /\ ~a.v4
    [] OTHER              -> FALSE

(* "Addr" names an interface and an IP family, not one address: it is       *)
(* resolved against the table at the time of the call, if the address is     *)
(* there                                                                     *)
ResolveKind(k, sys) ==
  IF k.k = "Addr" /\ \E a \in Flat(sys) : a.ip = k.ip
  THEN LET a == CHOOSE x \in Flat(sys) : x.ip = k.ip
       IN [k |-> IF a.v4 THEN "IndexV4" ELSE "IndexV6", name |-> "", ip |-> "", idx |-> a.idx]
  ELSE k

(* declarative reading of the statement: enabled by default; otherwise the   *)
(* last selection, in call order, that matches decides                        *)
Selected(a, sels) ==
  LET m == {i \in 1..Len(sels) : Matches(sels[i].kind, a)}
  IN m = {} \/ sels[CHOOSE i \in m : \A j \in m : j <= i].en

Enabled(sys, sels) == {a \in Flat(sys) : Selected(a, sels)}

(* operational twin: one pass over the selections, each overwriting the      *)
(* verdict of the addresses it matches                                        *)
RECURSIVE ApplySeq(_, _, _)
ApplySeq(on, all, sels) ==
  IF sels = <<>> THEN on
  ELSE LET s == Head(sels)
           hit == {a \in all : Matches(s.kind, a)}
       IN ApplySeq(IF s.en THEN on \cup hit ELSE on \ hit, all, Tail(sels))
EnabledOp(sys, sels) == ApplySeq(Flat(sys), Flat(sys), sels)

(* (interface, family) pairs in use                                          *)
IfFam(en) == {<<a.idx, a.v4>> : a \in en}
=============================================================================
