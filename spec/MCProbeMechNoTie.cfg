SPECIFICATION Spec
CONSTANTS D = {1, 2}
          MaxStart = 8
          MaxTime = 40
          Tiebreak = FALSE
          Backoff = 4
          MaxRen = 3
INVARIANTS TypeOK NoSharedName ThreeProbes OneWinner TwoClaimants
CHECK_DEADLOCK FALSE
