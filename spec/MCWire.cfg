SPECIFICATION Spec
CONSTANTS MaxEntries = 3
INVARIANTS OracleRoundTrip EmitCase
CHECK_DEADLOCK FALSE
