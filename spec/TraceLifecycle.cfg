SPECIFICATION Spec
CONSTANTS Cap = 100
          Drain = TRUE
          Flag = FALSE
CONSTRAINT Track
POSTCONDITION Accepted
CHECK_DEADLOCK FALSE
