---------------------------- MODULE MCCacheCases ----------------------------
(***************************************************************************)
(* Operation sequences for the replay of the cache mechanism on the real     *)
(* DnsCache (driver family `cachecases`): every combination of               *)
(*   1. a first record X (PTR, subtype PTR, SRV or address; TTL 1 or 2 s;    *)
(*      with or without the cache-flush bit) received for us at time 0,       *)
(*   2. half a second or a second and a half later a second record Y of the   *)
(*      same or a related record set (same record, another SRV / address of   *)
(*      the set, the PTR) with TTL 0 or 2 s, either flush bit, in a packet    *)
(*      that is for us or not,                                                *)
(*   3. at once, one or two seconds later one of: eviction, verify request,   *)
(*      each of the four refresh look-ups, removal of the type, removal of    *)
(*      the interface, of its IPv4 addresses, a look-up of known answers,     *)
(*   4. a second later an eviction.                                           *)
(* For every sequence the model's final state is checked here against the     *)
(* statement-level table (Heard.tla) and printed; the harness replays the     *)
(* sequence on the real cache and TraceCache.tla compares step by step.       *)
(***************************************************************************)
EXTENDS Naturals, Sequences, FiniteSets, TLC, Json
CONSTANTS EagerKeys, SplitByFlush, KeepSubs
C == INSTANCE Cache
H == INSTANCE Heard
MC == INSTANCE MCCache WITH MaxArr <- 0, MaxTime <- 0, FlushVaries <- TRUE, Kinds <- {}, TTLs <- {},
                            c <- 0, tab <- 0, now <- 0, narr <- 0

X1 == {"P", "PS", "S1", "A1"}
Y2 == {"P", "S1", "S2", "A1", "A2"}
Ops3 == {"evict", "verify", "rptr", "rsrvtxt", "rhosts", "rhostname", "forget", "dropintf", "dropaddrs", "knownptr", "knownaddr"}
VARIABLES x, y, o
Init == /\ x \in [kind : X1, ttl : {1, 2}, fl : BOOLEAN]
        /\ y \in [dt : {500, 1500}, kind : Y2, ttl : {0, 2}, fl : BOOLEAN, fu : BOOLEAN]
        /\ o \in [dt : {0, 1000, 2000}, k : Ops3]
Next == UNCHANGED <<x, y, o>>
Spec == Init /\ [][Next]_<<x, y, o>>

(* the model's run *)
T1 == 0
T2 == y.dt
T3 == y.dt + o.dt
T4 == T3 + 1000
C1 == C!Add(C!Empty, MC!CRec(x.kind, x.ttl, x.fl), 2, T1, TRUE).c
C2 == C!Add(C1, MC!CRec(y.kind, y.ttl, y.fl), 2, T2, y.fu).c
C3 == CASE o.k = "evict" -> C!Evict(C2, T3).c
        [] o.k = "verify" -> C!Verify(C2, MC!IN1, T3 + 1000).c
        [] o.k = "rptr" -> C!RefreshPtr(C2, MC!TY, T3).c
        [] o.k = "rsrvtxt" -> C!RefreshSrvTxt(C2, MC!TY, T3).c
        [] o.k = "rhosts" -> C!RefreshHosts(C2, MC!TY, T3).c
        [] o.k = "rhostname" -> C!RefreshHostname(C2, MC!HO, T3).c
        [] o.k = "forget" -> C!Forget(C2, MC!TY)
        [] o.k = "dropintf" -> C!DropIntf(C2, 2).c
        [] o.k = "dropaddrs" -> C!DropAddrs(C2, 2, TRUE, FALSE)
        [] OTHER -> C2
C4 == C!Evict(C3, T4).c
H1 == H!Arrive(<<>>, MC!HRec(x.kind, x.ttl, x.fl), 2, T1, TRUE)
H2 == H!Arrive(H1, MC!HRec(y.kind, y.ttl, y.fl), 2, T2, y.fu)
H3 == IF o.k = "verify" THEN H!Shorten(H2, MC!IN1, T3 + 1000, T3) ELSE H2
(* the mechanism stays within the statements (remove_service_type aside: it forgets on request) *)
Holds == /\ \A s \in {C1, C2, C3, C4} : C!WellFormed(s) /\ C!KeysNeeded(s) /\ C!SubsNeeded(s)
         /\ \A id \in C!Ids(C2) : C2.recs[id].expires <= H2[MC!HId(id)].exp /\ C2.recs[id].expires >= H2[MC!HId(id)].vexp
         /\ \A id \in C!Ids(C4) : C4.recs[id].expires <= H3[MC!HId(id)].exp /\ C4.recs[id].expires >= H3[MC!HId(id)].vexp
         /\ (o.k \notin {"forget", "dropintf", "dropaddrs"} => \A id \in DOMAIN H3 : (H3[id].forus /\ T4 < H3[id].vexp) => \E z \in C!Ids(C4) : MC!HId(z) = id)
EmitCase == PrintT(<<"CASE", ToJson([ops |-> <<
      [k |-> "recv", dt |-> 0, if |-> 2, fu |-> TRUE, recs |-> <<[kind |-> x.kind, ttl |-> x.ttl, fl |-> x.fl]>>],
      [k |-> "recv", dt |-> y.dt, if |-> 2, fu |-> y.fu, recs |-> <<[kind |-> y.kind, ttl |-> y.ttl, fl |-> y.fl]>>],
      [k |-> o.k, dt |-> o.dt, dl |-> 1000, sub |-> FALSE],
      [k |-> "evict", dt |-> 1000]>>])>>)
=============================================================================
