---------------------------- MODULE TraceEncode ----------------------------
(***************************************************************************)
(* C02 conformance, implementation -> specification.                       *)
(* Each line is one message built with the crate's DnsOutgoing API and     *)
(* encoded with to_data_on_wire():                                          *)
(*  [e |-> "encode", id, kind,                                             *)
(*   m  |-> [q, an, ns, ar] the entries as added (names as label sequences),*)
(*   pk |-> the emitted packets (bytes),                                    *)
(*   dec|-> what the crate's own decoder reads from each packet]            *)
(* Clauses:                                                                 *)
(*  C02.size       every packet <= 8972 bytes                               *)
(*  C02.wellformed every packet parses (Wire!ParseMsg), header counts equal *)
(*                 the entries carried, no trailing bytes, every            *)
(*                 compression pointer points strictly backwards            *)
(*  C02.questions  the questions are those added, in order (first packet)   *)
(*  C02.faithful   per section, the records carried by the packets, in      *)
(*                 order, form a sub-list of the records added: each one    *)
(*                 identical (owner labels, type, class, flush, TTL bytes,  *)
(*                 RDATA incl. names in RDATA); nothing else appears        *)
(*  C02.tc         every packet but the last has TC set                     *)
(*  C02.selfdecode the crate's decoder reads the same content               *)
(***************************************************************************)
EXTENDS CrateView, TLC, TLCExt, Json, IOUtils

Rec == ndJsonDeserialize(IOEnv.TRACE)
MaxPacket == 8972

VARIABLES l, viol
vars == <<l, viol>>
Ev == Rec[l]
Chk(tag, cond) == IF cond THEN {} ELSE {<<tag, l, Ev.id>>}

(* d : entry as added;  r : record read back by the oracle                 *)
SameAsAdded(d, r) ==
  /\ r.name = d.l /\ r.ty = d.ty /\ r.class = d.cls /\ r.flush = d.fl /\ r.ttl4 = d.ttl4
  /\ CASE d.rd.k = "name"  -> r.rd.kind = "name" /\ r.rd.target = d.rd.tl
       [] d.rd.k = "srv"   -> /\ r.rd.kind = "srv" /\ r.rd.target = d.rd.tl
                              /\ <<r.rd.prio, r.rd.weight, r.rd.port>> = d.rd.srv
       [] d.rd.k = "bytes" -> r.rd.kind = "bytes" /\ r.rd.bytes = d.rd.x
       [] OTHER -> FALSE

RECURSIVE SubList(_, _)
SubList(rs, ds) ==           \* the read-back records rs appear, in order, among the added ds
  IF rs = <<>> THEN TRUE
  ELSE IF ds = <<>> THEN FALSE
  ELSE IF SameAsAdded(Head(ds), Head(rs)) THEN SubList(Tail(rs), Tail(ds))
  ELSE SubList(rs, Tail(ds))

RECURSIVE Concat(_)
Concat(ss) == IF ss = <<>> THEN <<>> ELSE Head(ss) \o Concat(Tail(ss))

AllNamesStrict(b, p) ==
  \* every name field of every entry is strictly encoded; the offsets are
  \* recovered from the oracle parse (record start, and RDATA names)
  /\ \A i \in 1..Len(p.an) : StrictName(b, p.an[i].from)
  /\ \A i \in 1..Len(p.ns) : StrictName(b, p.ns[i].from)
  /\ \A i \in 1..Len(p.ar) : StrictName(b, p.ar[i].from)

RECURSIVE ParseAll(_)
ParseAll(pks) == IF pks = <<>> THEN <<>> ELSE <<ParseMsg(Head(pks))>> \o ParseAll(Tail(pks))
RECURSIVE CatSec(_, _)
CatSec(ps, sec) == IF ps = <<>> THEN <<>>
                   ELSE (CASE sec = "an" -> Head(ps).an [] sec = "ns" -> Head(ps).ns [] sec = "ar" -> Head(ps).ar)
                        \o CatSec(Tail(ps), sec)

SameQuestions(qs, added) ==
  /\ Len(qs) = Len(added)
  /\ \A i \in 1..Len(added) : qs[i].name = added[i].l /\ qs[i].ty = added[i].ty

Encode ==
  /\ Ev.e = "encode"
  /\ \E ps \in {ParseAll(Ev.pk)} :      \* bound by a quantifier: evaluated once, eagerly
     LET oks == \A i \in 1..Len(ps) : ps[i].ok
     IN viol' = viol
          \cup Chk("C02.size", \A i \in 1..Len(Ev.pk) : Len(Ev.pk[i]) <= MaxPacket)
          \cup Chk("C02.wellformed", /\ Len(Ev.pk) >= 1 /\ oks
                                     /\ \A i \in 1..Len(ps) : ps[i].next = Len(Ev.pk[i])
                                     /\ \A i \in 1..Len(ps) : AllNamesStrict(Ev.pk[i], ps[i]))
          \cup (IF oks /\ Len(ps) >= 1 THEN
                  Chk("C02.questions", /\ SameQuestions(ps[1].qs, Ev.m.q)
                                       /\ \A k \in 2..Len(ps) : ps[k].qs = <<>>)
                  \cup Chk("C02.faithful", /\ SubList(CatSec(ps, "an"), Ev.m.an)
                                           /\ SubList(CatSec(ps, "ns"), Ev.m.ns)
                                           /\ SubList(CatSec(ps, "ar"), Ev.m.ar))
                  \cup Chk("C02.tc", \A i \in 1..(Len(ps) - 1) : ps[i].tc)
                  \cup Chk("C02.selfdecode",
                           /\ Len(Ev.dec) = Len(Ev.pk)
                           /\ \A i \in 1..Len(Ev.dec) :
                                /\ Ev.dec[i].out = "ok"
                                /\ InsideP(ps[i], Ev.dec[i]))
                ELSE {})

Init == l = 1 /\ viol = {}
Next == l <= Len(Rec) /\ l' = l + 1 /\ Encode
Spec == Init /\ [][Next]_vars
Track == TLCSet(1, viol)
Accepted ==
  LET consumed == TLCGet("stats").diameter - 1 IN
  /\ PrintT(<<"RESULT", ToJson([consumed |-> consumed, total |-> Len(Rec), viol |-> TLCGet(1)])>>)
  /\ consumed = Len(Rec)
  /\ TLCGet(1) = {}
=============================================================================
