---------------------------- MODULE TraceThreads ----------------------------
(***************************************************************************)
(* C14 over the driver family `threads`: several real client threads make   *)
(* calls of every kind on clones of one handle while one of them shuts the  *)
(* daemon down (free-running daemon thread, real scheduling).  Every call   *)
(* is logged with global sequence numbers taken before it starts (s0),      *)
(* when its reply was received (s2) and after it returned (s1).  Only        *)
(* conditions that do not depend on the unobservable interleaving are        *)
(* asserted; they are the properties of Lifecycle.tla read over a history:   *)
(*   Final            - a call that starts after some caller has received    *)
(*                      Shutdown fails with DaemonShutdown (status(): says   *)
(*                      Shutdown);                                           *)
(*   NoDangling       - every reply channel yields a value or closes, every  *)
(*                      event channel closes, every thread comes back;       *)
(*   OneShutdownReply / CleanupOnce - one Shutdown reply to a shutdown(),    *)
(*                      one goodbye per announced service, one SearchStopped *)
(*                      per search channel;                                  *)
(*   SubProtocol      - SearchStarted* then at most one SearchStopped.       *)
(***************************************************************************)
EXTENDS Integers, Sequences, FiniteSets, TLC, TLCExt, Json, IOUtils

Rec == ndJsonDeserialize(IOEnv.TRACE)
VARIABLES l, scen, calls, chans, viol, hits
vars == <<l, scen, calls, chans, viol, hits>>
Ev == Rec[l]
V(tag, cond, extra) == IF cond THEN {} ELSE {<<tag, l, scen, extra>>}
Range(s) == {s[i] : i \in 1..Len(s)}

RECURSIVE Collapse(_)
Collapse(s) == IF Len(s) < 2 THEN s
               ELSE IF s[1] = "SearchStarted" /\ s[2] = "SearchStarted" THEN Collapse(Tail(s))
               ELSE <<s[1]>> \o Collapse(Tail(s))
ProtocolOK(evs) == Collapse(evs) \in {<<>>, <<"SearchStarted">>, <<"SearchStarted", "SearchStopped">>}

TCall == /\ Ev.e = "tcall"
         /\ calls' = Append(calls, Ev)
         /\ viol' = viol \cup V("C14.panic", Ev.res # "panic", <<"the call panicked", Ev.fn>>)
                         \cup V("C14.result", Ev.res \in {"ok", "Again", "DaemonShutdown", "panic"}, <<"unexpected error of a call with valid arguments", Ev.fn, Ev.res>>)
         /\ UNCHANGED <<scen, chans, hits>>
TChan == /\ Ev.e = "tchan"
         /\ chans' = Append(chans, Ev)
         /\ UNCHANGED <<scen, calls, viol, hits>>
TFinal ==
  /\ Ev.e = "tfinal"
  /\ LET C == Range(calls)
         gotShutdown == {c \in C : c.reply = "Shutdown"}
         \* the earliest receipt of Shutdown by any caller
         firstSeen == IF gotShutdown = {} THEN 0 ELSE CHOOSE s \in {c.s2 : c \in gotShutdown} : \A c \in gotShutdown : s <= c.s2
         late == {c \in C : firstSeen # 0 /\ c.s0 > firstSeen}
         stuck == {c \in C : c.reply = "timeout"}
         \* a stuck call whose API call (t0 .. tc, real time) overlaps the interval between the daemon's last look at its
         \* queue and the end of its thread may be the known window; any other is not
         \* (drain_us: taken just before the daemon began to empty its queue - whatever was queued before it is certainly taken out;
         \* the instant of its last look lies between drain_us and drained_us)
         inWindow(c) == Ev.drain_us >= 0 /\ c.tc >= Ev.drain_us /\ (Ev.dead_us < 0 \/ c.t0 <= Ev.dead_us)
         maker(ch) == {c \in C : c.s0 = ch.by}
         exits == {c \in C : c.fn = "shutdown" /\ c.reply = "Shutdown"}
         allCh == Range(chans) \cup Range(Ev.warm)
         searchCh == {c \in allCh : c.fn \in {"browse", "resolve_hostname"}}
         stops(c) == Cardinality({i \in 1..Len(c.events) : c.events[i] = "SearchStopped"})
         warmBye == IF Ev.warm_fnk \in DOMAIN Ev.byes THEN Ev.byes[Ev.warm_fnk] ELSE 0
     IN /\ viol' = viol
              \cup V("C14.hang", Ev.finished = Ev.threads, <<"a client thread did not come back", Ev.threads - Ev.finished>>)
              \cup V("C14.hang", Ev.dead, <<"the daemon thread did not end although shutdown() was called">>)
              \cup UNION {V("C14.hang", FALSE,
                            <<IF inWindow(c)
                              THEN "a command sent between the daemon's last look at its queue and the drop of the receiver stays in the channel: its reply channel is never answered nor closed"
                              ELSE "a reply channel is neither answered nor closed", c.fn, c.s0>>) : c \in stuck}
              \cup UNION {V("C14.hang", c.closed, <<"an event channel is still open after the daemon thread has ended", c.fn>>) : c \in Range(Ev.warm)}
              \cup UNION {V("C14.hang", c.closed,
                            <<IF \E m \in maker(c) : inWindow(m)
                              THEN "a command sent between the daemon's last look at its queue and the drop of the receiver stays in the channel: its event channel is never closed"
                              ELSE "an event channel is still open after the daemon thread has ended", c.fn>>) : c \in Range(chans)}
              \cup UNION {V("C14.final-after", c.res = "DaemonShutdown" \/ (c.fn = "status" /\ c.res = "ok" /\ c.reply = "Shutdown"),
                            <<"a call that started after Shutdown had been received did not fail with DaemonShutdown", c.fn, c.res, c.reply, c.s0, firstSeen>>) : c \in late}
              \cup V("C14.once", Cardinality(exits) <= 1, <<"more than one shutdown() was answered Shutdown", Cardinality(exits)>>)
              \cup V("C14.shutdown-reply", Ev.dead => (Cardinality(exits) = 1 \/ \E c \in C : c.fn = "shutdown" /\ c.reply = "timeout"),
                     <<"the daemon ended but no shutdown() was answered Shutdown">>)
              \cup UNION {V("C14.events", ProtocolOK(c.events), <<"events on a search channel", c.fn, c.events>>) : c \in searchCh}
              \cup UNION {V("C14.once", stops(c) <= 1, <<"more than one SearchStopped on a channel", c.fn>>) : c \in searchCh}
              \* a search the daemon had started is told to stop before its channel closes
              \cup UNION {V("C14.stopped", c.closed => (c.events = <<>> \/ c.events[Len(c.events)] = "SearchStopped"),
                            <<"a started search was closed without SearchStopped", c.fn, c.events>>) : c \in searchCh}
              \cup V("C14.goodbye", (Ev.dead /\ Ev.warm_fnk \in Range(Ev.announced)) => warmBye >= 1, <<"announced service not withdrawn at shutdown">>)
              \cup V("C14.once", \A k \in DOMAIN Ev.byes : Ev.byes[k] <= 1, <<"a service was withdrawn more than once (clean-up ran twice?)", Ev.byes>>)
        /\ hits' = hits \cup {"C14.threads"}
                        \cup (IF late # {} THEN {"C14.after-seen"} ELSE {})
                        \cup (IF \E c \in C : c.reply = "closed" THEN {"C14.behind-exit"} ELSE {})
                        \cup (IF warmBye >= 1 THEN {"C14.goodbye"} ELSE {})
                        \cup (IF \E c \in searchCh : stops(c) = 1 THEN {"C14.stopped"} ELSE {})
                        \cup (IF stuck # {} THEN {"C14.hang-seen"} ELSE {})
  /\ calls' = <<>> /\ chans' = <<>>
  /\ UNCHANGED scen
Reset == /\ Ev.e = "reset" /\ scen' = Ev.scen.id /\ calls' = <<>> /\ chans' = <<>> /\ UNCHANGED <<viol, hits>>
Skip == /\ Ev.e \in {"adv", "dead", "note", "end", "spawn", "ifs", "deliver", "iter", "call"}
        /\ UNCHANGED <<scen, calls, chans, viol, hits>>
Init == l = 1 /\ scen = 0 /\ calls = <<>> /\ chans = <<>> /\ viol = {} /\ hits = {}
Next == l <= Len(Rec) /\ l' = l + 1 /\ (Reset \/ Skip \/ TCall \/ TChan \/ TFinal)
Spec == Init /\ [][Next]_vars
Track == TLCSet(1, viol) /\ TLCSet(2, hits)
Accepted ==
  LET consumed == TLCGet("stats").diameter - 1 IN
  /\ PrintT(<<"RESULT", ToJson([consumed |-> consumed, total |-> Len(Rec), viol |-> TLCGet(1), hits |-> TLCGet(2)])>>)
  /\ consumed = Len(Rec)
  /\ TLCGet(1) = {}
=============================================================================
