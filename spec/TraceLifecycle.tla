--------------------------- MODULE TraceLifecycle ---------------------------
(***************************************************************************)
(* Trace specification for C14 over the driver family `lifecases`: the      *)
(* step functions of Lifecycle.tla are run over what a real daemon did.     *)
(* A `call` line is a CallF step (the logged result must be the one the     *)
(* model computes), an `iter` line is one loop iteration: the closure of    *)
(* the daemon's small steps (Iteration; up to the exit window - ToWindow -   *)
(* when the harness holds the daemon there, FromWindow when it lets go).    *)
(* After each line the observable part of the model state must equal what   *)
(* was observed: which reply channels yielded what or closed, which search  *)
(* channels got SearchStarted / SearchStopped, which channels are closed,   *)
(* whether the thread is alive; plus goodbyes for announced services in the *)
(* clean-up iteration.  The `final` line is what a client blocked in recv() *)
(* would see for ever after.  Non-blocking: failed clauses go to `viol`.    *)
(***************************************************************************)
EXTENDS Lifecycle, Integers, TLC, TLCExt, Json, IOUtils

Rec == ndJsonDeserialize(IOEnv.TRACE)

VARIABLES l, scen,
          st,       \* the Lifecycle state
          chOf,     \* trace channel id -> call id that created it
          fnOf,     \* call id -> lower-cased full name of the service it registered
          ann,      \* <<full name, interface, v4>> seen announced
          got,      \* call id -> what its reply channel yielded ("Running", "Shutdown", "value", "closed")
          viol, hits
vars == <<l, scen, st, chOf, fnOf, ann, got, viol, hits>>

Ev == Rec[l]
V(tag, cond, extra) == IF cond THEN {} ELSE {<<tag, l, scen, extra>>}
Dom(f) == DOMAIN f
Put(f, k, v) == [x \in Dom(f) \cup {k} |-> IF x = k THEN v ELSE f[x]]
Range(s) == {s[i] : i \in 1..Len(s)}

KindOf(fn) == CASE fn \in {"get_metrics", "unregister"} -> "reply"
                [] fn = "status" -> "status"
                [] fn \in {"browse", "browse_cache", "resolve_hostname"} -> "sub"
                [] fn = "monitor" -> "mon"
                [] fn = "register" -> "reg"
                [] fn = "shutdown" -> "exit"
                [] OTHER -> "fire"

Call ==
  /\ Ev.e = "call"
  /\ LET k == KindOf(Ev.fn)  id == Len(st.calls) + 1  want == ResOf(st, k)
         racing == st.dstate = "drained" /\ want = "ok" /\ ~Fast(st, k) IN
     /\ viol' = viol \cup V("C14.ids", Ev.id = id, <<"harness: call ids out of step", Ev.id, id>>)
                     \cup V("C14.panic", Ev.res # "panic", <<"the call panicked", Ev.fn>>)
                     \cup V("C14.result", Ev.res = "panic" \/ Ev.res = want, <<"result of the call", Ev.fn, Ev.res, want, st.dstate>>)
     /\ st' = CallF(st, k)
     /\ chOf' = IF Ev.ch # 0 THEN Put(chOf, Ev.ch, id) ELSE chOf
     /\ fnOf' = IF k = "reg" THEN Put(fnOf, id, Ev.args.fnl.k) ELSE fnOf
     /\ hits' = hits \cup (IF want = "DaemonShutdown" THEN {"C14.after"} ELSE {})
                     \cup (IF Fast(st, k) THEN {"C14.status-fast"} ELSE {})
                     \cup (IF want = "Again" THEN {"C14.again"} ELSE {})
                     \cup (IF racing THEN {"C14.window-call"} ELSE {})
                     \cup (IF st.seen THEN {"C14.after-seen"} ELSE {})
  /\ UNCHANGED <<scen, ann, got>>

(* what the reply channels of this line yielded, as the model names it        *)
Yield(r) == IF r.k = "closed" THEN "closed"
            ELSE IF r.k \in {"status", "shutdown"} THEN r.v        \* "Running" / "Shutdown"
            ELSE "Running"                                          \* any value of a command executed while running
StartStop(evs, ch) == SelectSeq([j \in 1..Len(evs) |-> IF evs[j].ch = ch THEN evs[j].k ELSE "-"],
                                LAMBDA x : x \in {"SearchStarted", "SearchStopped"})
(* repeated SearchStarted (one per query of an open search) count as one      *)
RECURSIVE Collapse(_)
Collapse(s) == IF Len(s) < 2 THEN s
               ELSE IF s[1] = "SearchStarted" /\ s[2] = "SearchStarted" THEN Collapse(Tail(s))
               ELSE <<s[1]>> \o Collapse(Tail(s))
Suffix(a, b) == SubSeq(b, Len(a) + 1, Len(b))      \* what b adds to its prefix a

Iter ==
  /\ Ev.e = "iter"
  /\ \E s2 \in {IF Ev.win THEN ToWindow(st) ELSE IF st.dstate = "drained" THEN FromWindow(st) ELSE Iteration(st)} :
     LET newly == {id \in Dom(st.chan) : st.chan[id] = "none" /\ s2.chan[id] # "none"}
         obs == {[id |-> Ev.replies[j].call, y |-> Yield(Ev.replies[j])] : j \in 1..Len(Ev.replies)}
         want == {[id |-> id, y |-> s2.chan[id]] : id \in newly}
         chans == {c \in Dom(chOf) : chOf[c] \in Dom(s2.sub)}
         \* events on the search channels
         vEv == UNION {
            LET x == chOf[c]
                before == IF x \in Dom(st.sub) THEN st.sub[x].ev ELSE <<>>
                added == Suffix(before, s2.sub[x].ev)
                seenNow == StartStop(Ev.events, c)
                open == before # <<>> /\ before[Len(before)] = "SearchStarted"
                \* an open search may repeat SearchStarted before anything else
                norm == Collapse((IF open THEN <<"SearchStarted">> ELSE <<>>) \o seenNow)
                expect == (IF open THEN <<"SearchStarted">> ELSE <<>>) \o added
            IN V("C14.events", norm = expect, <<"events on a search channel", c, seenNow, added>>) : c \in chans}
         closedWant == {c \in chans : s2.sub[chOf[c]].closed}
         cleanup == st.cleanups = 0 /\ s2.cleanups = 1
         \* goodbyes: the clean-up withdraws every registered service that was announced
         \* ... on every interface and over every IP version it was announced on: <<full name, interface, v4>>
         srvBye == UNION {{<<r.n.k, Ev.sent[i]["if"], Ev.sent[i].v4>> : r \in {x \in Range(Ev.sent[i].m.an) : x.ty = "SRV" /\ x.ttl = 0}}
                          : i \in {x \in 1..Len(Ev.sent) : Ev.sent[x].ok /\ Ev.sent[x].m.qr}}
         owedBye == {a \in ann : a[1] \in {fnOf[id] : id \in {x \in st.svcs : x \in Dom(fnOf)}}}
         annNow == UNION {{<<r.n.k, Ev.sent[i]["if"], Ev.sent[i].v4>> : r \in {x \in Range(Ev.sent[i].m.an) : x.ty = "SRV" /\ x.ttl > 0}}
                          : i \in {x \in 1..Len(Ev.sent) : Ev.sent[x].ok /\ Ev.sent[x].m.qr /\ Ev.sent[x].mc}}
     IN /\ viol' = viol
              \cup V("C14.panic", ~Ev.panicked, <<"the daemon thread panicked">>)
              \cup V("C14.hung", ~Ev.hung, <<"the daemon thread did not come back from an iteration">>)
              \cup V("C14.reply", obs = want, <<"reply channels: observed vs. model", obs, want>>)
              \cup vEv
              \cup V("C14.closed", {c \in Range(Ev.closed) : c \in chans} = closedWant, <<"closed event channels: observed vs. model", Ev.closed, closedWant>>)
              \cup V("C14.alive", Ev.alive = (s2.dstate # "gone") \/ Ev.hung, <<"daemon thread alive", Ev.alive, s2.dstate>>)
              \cup (IF cleanup THEN V("C14.goodbye", owedBye \subseteq srvBye, <<"announced service not withdrawn at shutdown", owedBye \ srvBye>>) ELSE {})
              \cup (IF ~cleanup /\ s2.dstate # "run" THEN V("C14.once", srvBye = {}, <<"goodbye outside the one clean-up", srvBye>>) ELSE {})
        \* a client that reads Shutdown from a reply channel has seen it (Observe)
        /\ st' = IF ~s2.seen /\ \E o \in obs : o.y = "Shutdown" THEN ObserveF(s2) ELSE s2
        /\ ann' = ann \cup annNow
        /\ got' = [id \in Dom(got) \cup {o.id : o \in obs} |-> IF \E o \in obs : o.id = id THEN (CHOOSE o \in obs : o.id = id).y ELSE got[id]]
        /\ hits' = hits \cup (IF cleanup THEN {"C14.cleanup"} ELSE {})
                        \cup (IF cleanup /\ owedBye # {} THEN {"C14.goodbye"} ELSE {})
                        \cup (IF cleanup /\ (\E a \in owedBye : ~a[3]) THEN {"C14.goodbye-v6"} ELSE {})
                        \cup (IF cleanup /\ \E x \in Dom(st.sub) : st.sub[x].where = "daemon" /\ ~st.sub[x].mon THEN {"C14.stopped"} ELSE {})
                        \cup (IF \E w \in want : w.y = "closed" THEN {"C14.behind-exit"} ELSE {})
                        \cup (IF Ev.win THEN {"C14.window"} ELSE {})
                        \cup (IF \E w \in want : w.y = "Shutdown" THEN {"C14.shutdown-reply"} ELSE {})
  /\ UNCHANGED <<scen, chOf, fnOf>>

(* what a client blocked on a channel sees from now on                       *)
FinalLine ==
  /\ Ev.e = "final"
  /\ LET pend == {[id |-> Ev.pending[j].call, s |-> Ev.pending[j].st] : j \in 1..Len(Ev.pending)}
         \* the model's view of the channels that have not been read yet
         mine(id) == IF id \in Dom(st.chan) THEN st.chan[id] ELSE "?"
         dangling == {p \in pend : p.s = "empty"}
         inWindow(id) == id \in Range(st.queue)       \* still in the channel: sent after the last look at the queue
         chans == {c \in Dom(chOf) : chOf[c] \in Dom(st.sub)}
         openCh == {c \in chans : c \notin Range(Ev.closed)}
     IN /\ viol' = viol
              \cup UNION {V("C14.hang", FALSE,
                            <<IF inWindow(p.id)
                              THEN "a command sent between the daemon's last look at its queue and the drop of the receiver stays in the channel: its reply channel is never answered nor closed"
                              ELSE "a reply channel is neither answered nor closed after the daemon thread has ended", p.id>>) : p \in dangling}
              \cup UNION {V("C14.hang", Ev.alive,
                            <<IF inWindow(chOf[c])
                              THEN "a command sent between the daemon's last look at its queue and the drop of the receiver stays in the channel: its event channel is never closed"
                              ELSE "an event channel is still open after the daemon thread has ended", c>>) : c \in openCh}
              \cup UNION {V("C14.final", p.s = "empty" \/ (mine(p.id) = p.s) \/ (mine(p.id) = "Running" /\ p.s = "value"),
                            <<"reply channel at the end: observed vs. model", p.id, p.s, mine(p.id)>>) : p \in pend}
              \cup V("C14.alive", ~Ev.alive \/ st.dstate \in {"run"}, <<"daemon thread still alive at the end", st.dstate>>)
              \cup V("C14.model", st.dstate # "gone" \/ (CleanupOnce(st) /\ CleanBeforeShutdown(st) /\ OneShutdownReply(st) /\ SubProtocol(st)),
                     <<"model invariant fails on the state the trace leads to">>)
              \cup V("C14.final-after", Final(st), <<"a call made after Shutdown had been received did not fail with DaemonShutdown">>)
        /\ hits' = hits \cup (IF dangling # {} \/ (openCh # {} /\ ~Ev.alive) THEN {"C14.hang-seen"} ELSE {}) \cup {"C14.final"}
  /\ UNCHANGED <<scen, st, chOf, fnOf, ann, got>>

Reset == /\ Ev.e = "reset"
         /\ scen' = Ev.scen.id /\ st' = Init0 /\ chOf' = <<>> /\ fnOf' = <<>> /\ ann' = {} /\ got' = <<>>
         /\ UNCHANGED <<viol, hits>>
Skip == /\ Ev.e \in {"adv", "dead", "note", "end", "spawn", "ifs", "deliver"}
        /\ UNCHANGED <<scen, st, chOf, fnOf, ann, got, viol, hits>>

Init == l = 1 /\ scen = 0 /\ st = Init0 /\ chOf = <<>> /\ fnOf = <<>> /\ ann = {} /\ got = <<>> /\ viol = {} /\ hits = {}
Step == Reset \/ Skip \/ Call \/ Iter \/ FinalLine
Next == l <= Len(Rec) /\ l' = l + 1 /\ Step
Spec == Init /\ [][Next]_vars

Track == TLCSet(1, viol) /\ TLCSet(2, hits)
Accepted ==
  LET consumed == TLCGet("stats").diameter - 1 IN
  /\ PrintT(<<"RESULT", ToJson([consumed |-> consumed, total |-> Len(Rec), viol |-> TLCGet(1), hits |-> TLCGet(2)])>>)
  /\ consumed = Len(Rec)
  /\ TLCGet(1) = {}
=============================================================================
