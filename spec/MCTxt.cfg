SPECIFICATION Spec
CONSTANTS
  Limit = 5
  MaxProps = 2
  MaxBytes = 5
INVARIANTS RoundTrip ChunkBound LookupCI DecodeTotal EmitCase
CHECK_DEADLOCK FALSE
