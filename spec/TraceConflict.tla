---------------------------- MODULE TraceConflict ----------------------------
(***************************************************************************)
(* C08, global outcome over the combined (multi-daemon) trace of the       *)
(* `conflict` family: N daemons registered the same instance name (and, in  *)
(* most scenarios, the same host name) with different data on a loss-free   *)
(* link.  When the dust has settled (`outcome` event):                      *)
(*   C08.outcome-all     every daemon has announced its service             *)
(*   C08.outcome-unique  no two daemons announce the same instance name     *)
(*                       (nor, with a shared host name, the same host name) *)
(*   C08.outcome-winner  exactly one daemon holds the original instance     *)
(*                       name (and original host name)                      *)
(* What a daemon holds is read off the wire: its latest announcement.       *)
(***************************************************************************)
EXTENDS Naturals, Sequences, FiniteSets, TLC, TLCExt, Json, IOUtils
Rec == ndJsonDeserialize(IOEnv.TRACE)
VARIABLES l, scen, holds, orig, viol, hits
vars == <<l, scen, holds, orig, viol, hits>>
Ev == Rec[l]
V(tag, cond, extra) == IF cond THEN {} ELSE {<<tag, l, scen, extra>>}
Put(f, k, v) == [x \in DOMAIN f \cup {k} |-> IF x = k THEN v ELSE f[x]]

IsAnn(p) == /\ p.ok /\ p.m.qr /\ p.mc /\ Len(p.m.ar) = 0
            /\ \E a, b \in 1..Len(p.m.an) : p.m.an[a].ty = "PTR" /\ p.m.an[b].ty = "SRV" /\ p.m.an[a].t.k = p.m.an[b].n.k
            /\ \A j \in 1..Len(p.m.an) : p.m.an[j].ttl > 0
SrvOf(p) == p.m.an[CHOOSE j \in 1..Len(p.m.an) : p.m.an[j].ty = "SRV"]

Iter == /\ Ev.e = "iter"
        /\ LET anns == {i \in 1..Len(Ev.sent) : IsAnn(Ev.sent[i])} IN
           holds' = IF anns = {} THEN holds
                    ELSE Put(holds, Ev.d, [inst |-> SrvOf(Ev.sent[CHOOSE i \in anns : TRUE]).n.k,
                                           host |-> SrvOf(Ev.sent[CHOOSE i \in anns : TRUE]).t.k])
        /\ UNCHANGED <<scen, orig, viol, hits>>
Names == /\ Ev.e = "names"
         /\ orig' = [inst |-> Ev.instk[1], host |-> Ev.hostk[1], dotted |-> Ev.inst[1] # Ev.instu]
         /\ UNCHANGED <<scen, holds, viol, hits>>
Outcome ==
  /\ Ev.e = "outcome"
  /\ LET ds == 0..(Ev.n - 1)
         all == \A d \in ds : d \in DOMAIN holds
         insts == [d \in DOMAIN holds |-> holds[d].inst]
         hosts == [d \in DOMAIN holds |-> holds[d].host]
         why == IF orig.dotted THEN "instance name with a dot inside a label: conflicts are not detected, both keep the name"
                ELSE "after conflict resolution"
     IN viol' = viol
          \cup V("C08.outcome-all", all, <<"a daemon never announced", DOMAIN holds>>)
          \cup (IF all THEN
                  \* the statement promises this for two claimants; with three, the two losers may still collide
                  \* on the name they both moved to (observed; reported as a note by the check, not as a violation)
                  V(IF Ev.n = 2 THEN "C08.outcome-unique" ELSE "NOTE.C08.three-claimants-unique",
                    /\ \A a, b \in ds : a # b => insts[a] # insts[b]
                    /\ (Ev.same_host => \A a, b \in ds : a # b => hosts[a] # hosts[b]),
                    <<why, insts, hosts>>)
                  \cup V("C08.outcome-winner", /\ Cardinality({d \in ds : insts[d] = orig.inst}) = 1
                                               /\ (Ev.same_host => Cardinality({d \in ds : hosts[d] = orig.host}) = 1),
                         <<why, insts, hosts, orig>>)
                ELSE {})
  /\ hits' = hits \cup {"C08.outcome"}
  /\ UNCHANGED <<scen, holds, orig>>
Reset == /\ Ev.e = "reset" /\ scen' = Ev.scen.id /\ holds' = <<>> /\ orig' = [inst |-> "", host |-> "", dotted |-> FALSE]
         /\ UNCHANGED <<viol, hits>>
Skip == /\ Ev.e \notin {"iter", "names", "outcome", "reset"} /\ UNCHANGED <<scen, holds, orig, viol, hits>>
Init == l = 1 /\ scen = 0 /\ holds = <<>> /\ orig = [inst |-> "", host |-> "", dotted |-> FALSE] /\ viol = {} /\ hits = {}
Next == l <= Len(Rec) /\ l' = l + 1 /\ (Reset \/ Iter \/ Names \/ Outcome \/ Skip)
Spec == Init /\ [][Next]_vars
Track == TLCSet(1, viol) /\ TLCSet(2, hits)
Accepted ==
  LET consumed == TLCGet("stats").diameter - 1 IN
  /\ PrintT(<<"RESULT", ToJson([consumed |-> consumed, total |-> Len(Rec), viol |-> TLCGet(1), hits |-> TLCGet(2)])>>)
  /\ consumed = Len(Rec)
  /\ TLCGet(1) = {}
=============================================================================
