---------------------------- MODULE TraceConflict ----------------------------
(***************************************************************************)
(* C08, global outcome over the combined (multi-daemon) trace of the       *)
(* `conflict` family: N daemons registered the same instance name (and, in  *)
(* most scenarios, the same host name) with different data on a loss-free   *)
(* link.  When the dust has settled (`outcome` event):                      *)
(*   C08.outcome-all     every daemon has announced its service             *)
(*   C08.outcome-unique  no two daemons announce the same instance name     *)
(*                       (nor, with a shared host name, the same host name) *)
(*   C08.outcome-winner  exactly one daemon holds the original instance     *)
(*                       name (and original host name)                      *)
(* What a daemon holds is read off the wire: its latest announcement.       *)
(***************************************************************************)
EXTENDS Naturals, Sequences, FiniteSets, TLC, TLCExt, Json, IOUtils
Rec == ndJsonDeserialize(IOEnv.TRACE)
(* what ProbeMech.tla can settle in, per vector of start ticks (minimum 0): lines [start, rens] computed by TLC from     *)
(* MCProbeOutcomes (an empty file: no comparison)                                                                        *)
Outc == IF "OUTCOMES" \in DOMAIN IOEnv THEN ndJsonDeserialize(IOEnv.OUTCOMES) ELSE <<>>
VARIABLES l, scen, holds, orig, viol, hits
vars == <<l, scen, holds, orig, viol, hits>>
Ev == Rec[l]
V(tag, cond, extra) == IF cond THEN {} ELSE {<<tag, l, scen, extra>>}
Put(f, k, v) == [x \in DOMAIN f \cup {k} |-> IF x = k THEN v ELSE f[x]]

IsAnn(p) == /\ p.ok /\ p.m.qr /\ p.mc /\ Len(p.m.ar) = 0
            /\ \E a, b \in 1..Len(p.m.an) : p.m.an[a].ty = "PTR" /\ p.m.an[b].ty = "SRV" /\ p.m.an[a].t.k = p.m.an[b].n.k
            /\ \A j \in 1..Len(p.m.an) : p.m.an[j].ttl > 0
SrvOf(p) == p.m.an[CHOOSE j \in 1..Len(p.m.an) : p.m.an[j].ty = "SRV"]

Iter == /\ Ev.e = "iter"
        /\ LET anns == {i \in 1..Len(Ev.sent) : IsAnn(Ev.sent[i])} IN
           holds' = IF anns = {} THEN holds
                    ELSE Put(holds, Ev.d, [inst |-> SrvOf(Ev.sent[CHOOSE i \in anns : TRUE]).n.k,
                                           host |-> SrvOf(Ev.sent[CHOOSE i \in anns : TRUE]).t.k])
        /\ UNCHANGED <<scen, orig, viol, hits>>
Names == /\ Ev.e = "names"
         /\ orig' = [inst |-> Ev.instk[1], host |-> Ev.hostk[1], dotted |-> Ev.inst[1] # Ev.instu, cand |-> Ev.instk]
         /\ UNCHANGED <<scen, holds, viol, hits>>
(* ---- conformance of the outcome with the mechanism model (family probecases) ---- *)
(* A real daemon starts probing within two ticks of its start tick (seeded jitter below one tick, the crate's own random  *)
(* delay below another): the outcome must be one that ProbeMech.tla can settle in for one of the vectors start + {0,1}^n  *)
(* (shifted so that the earliest claimant starts at 0).  Daemon k is the model's claimant of rank k + 1: its records       *)
(* (port 8000 + k, who=k, address .1k) are lexicographically later than those of the daemons before it.                    *)
MinSeq(s) == CHOOSE m \in {s[i] : i \in 1..Len(s)} : \A i \in 1..Len(s) : m <= s[i]
Norm(s) == [i \in 1..Len(s) |-> s[i] - MinSeq(s)]
Bits(n) == [1..n -> {0, 1}]
Lookup(s) == {Outc[j].rens : j \in {x \in 1..Len(Outc) : Outc[x].start = s}}
Admissible(start) ==
  LET vs == {Norm([i \in 1..Len(start) |-> start[i] + b[i]]) : b \in Bits(Len(start))}
  IN IF \E v \in vs : Lookup(v) = {} THEN {}     \* outside the enumerated vectors: not judged
     ELSE UNION {UNION {{r[i] : i \in 1..Len(r)} : r \in Lookup(v)} : v \in vs}
IndexIn(seq, x) == IF \E i \in 1..Len(seq) : seq[i] = x THEN (CHOOSE i \in 1..Len(seq) : seq[i] = x) - 1 ELSE 99
ModelOn == /\ "start" \in DOMAIN Ev /\ ~orig.dotted /\ Len(Outc) > 0
           /\ \A d \in 0..(Ev.n - 1) : d \in DOMAIN holds
           /\ Admissible(Ev.start) # {}
Outcome ==
  /\ Ev.e = "outcome"
  /\ LET ds == 0..(Ev.n - 1)
         all == \A d \in ds : d \in DOMAIN holds
         insts == [d \in DOMAIN holds |-> holds[d].inst]
         hosts == [d \in DOMAIN holds |-> holds[d].host]
         why == IF orig.dotted THEN "instance name with a dot inside a label: conflicts are not detected, both keep the name"
                ELSE "after conflict resolution"
     IN viol' = viol
          \cup V("C08.outcome-all", all, <<"a daemon never announced", DOMAIN holds>>)
          \cup (IF all THEN
                  \* the statement promises this for two claimants; with three, the two losers may still collide
                  \* on the name they both moved to (observed; reported as a note by the check, not as a violation)
                  V(IF Ev.n = 2 THEN "C08.outcome-unique" ELSE "NOTE.C08.three-claimants-unique",
                    /\ \A a, b \in ds : a # b => insts[a] # insts[b]
                    /\ (Ev.same_host => \A a, b \in ds : a # b => hosts[a] # hosts[b]),
                    <<why, insts, hosts>>)
                  \cup V("C08.outcome-winner", /\ Cardinality({d \in ds : insts[d] = orig.inst}) = 1
                                               /\ (Ev.same_host => Cardinality({d \in ds : hosts[d] = orig.host}) = 1),
                         <<why, insts, hosts, orig>>)
                ELSE {})
          \cup (IF ModelOn
                THEN V("C08.outcome-model", [i \in 1..Ev.n |-> IndexIn(orig.cand, insts[i - 1])] \in Admissible(Ev.start),
                       <<"the names the daemons ended up with are not an outcome the mechanism model can settle in for these start times",
                         Ev.start, [i \in 1..Ev.n |-> IndexIn(orig.cand, insts[i - 1])], Admissible(Ev.start)>>)
                ELSE {})
  /\ hits' = hits \cup {"C08.outcome"}
                  \cup (IF ModelOn THEN {"C08.outcome-model"} ELSE {})
  /\ UNCHANGED <<scen, holds, orig>>
Reset == /\ Ev.e = "reset" /\ scen' = Ev.scen.id /\ holds' = <<>> /\ orig' = [inst |-> "", host |-> "", dotted |-> FALSE, cand |-> <<>>]
         /\ UNCHANGED <<viol, hits>>
Skip == /\ Ev.e \notin {"iter", "names", "outcome", "reset"} /\ UNCHANGED <<scen, holds, orig, viol, hits>>
Init == l = 1 /\ scen = 0 /\ holds = <<>> /\ orig = [inst |-> "", host |-> "", dotted |-> FALSE] /\ viol = {} /\ hits = {}
Next == l <= Len(Rec) /\ l' = l + 1 /\ (Reset \/ Iter \/ Names \/ Outcome \/ Skip)
Spec == Init /\ [][Next]_vars
Track == TLCSet(1, viol) /\ TLCSet(2, hits)
Accepted ==
  LET consumed == TLCGet("stats").diameter - 1 IN
  /\ PrintT(<<"RESULT", ToJson([consumed |-> consumed, total |-> Len(Rec), viol |-> TLCGet(1), hits |-> TLCGet(2)])>>)
  /\ consumed = Len(Rec)
  /\ TLCGet(1) = {}
=============================================================================
