-------------------------------- MODULE Txt --------------------------------
(***************************************************************************)
(* DNS-SD TXT properties (RFC 6763 section 6) as the crate promises them   *)
(* (C16).  A property is [k : Seq(byte), hv : BOOLEAN, v : Seq(byte)]       *)
(* (hv = "has a value"; v = <<>> when hv is FALSE).  Limit is 255 in the    *)
(* real system and a small number in the model-checking instance so that    *)
(* TLC explores the boundary arithmetic exhaustively.                       *)
(***************************************************************************)
EXTENDS Naturals, Sequences, FiniteSets
CONSTANT Limit

EQ == 61     \* '='

LowerByte(x) == IF x >= 65 /\ x <= 90 THEN x + 32 ELSE x
LowerB(s) == [i \in 1..Len(s) |-> LowerByte(s[i])]
IsAscii(s) == \A i \in 1..Len(s) : s[i] <= 127

PropLen(p) == Len(p.k) + IF p.hv THEN 1 + Len(p.v) ELSE 0

(* what ServiceInfo::new accepts.  An empty key without a value would be     *)
(* the zero-length string, which is the TXT terminator: not representable.  *)
Representable(p) == ~(p.k = <<>> /\ ~p.hv)
AcceptProp(p) == /\ IsAscii(p.k) /\ \A i \in 1..Len(p.k) : p.k[i] # EQ
                 /\ PropLen(p) <= Limit
                 /\ Representable(p)
Accept(ps) == \A i \in 1..Len(ps) : AcceptProp(ps[i])

(* first occurrence per lower-cased key                                     *)
RECURSIVE UniqueR(_, _)
UniqueR(ps, seen) ==
  IF ps = <<>> THEN <<>>
  ELSE LET p == Head(ps)  lk == LowerB(p.k) IN
       IF lk \in seen THEN UniqueR(Tail(ps), seen)
       ELSE <<p>> \o UniqueR(Tail(ps), seen \cup {lk})
Unique(ps) == UniqueR(ps, {})

EncodeProp(p) == <<PropLen(p)>> \o p.k \o (IF p.hv THEN <<EQ>> \o p.v ELSE <<>>)
RECURSIVE EncodeAll(_)
EncodeAll(ps) == IF ps = <<>> THEN <<>> ELSE EncodeProp(Head(ps)) \o EncodeAll(Tail(ps))
EncodeTxt(ps) == IF ps = <<>> THEN <<0>> ELSE EncodeAll(ps)

(* index of the first '=' in s, 0 if none                                   *)
FirstEq(s) == IF \E i \in 1..Len(s) : s[i] = EQ
              THEN CHOOSE i \in 1..Len(s) : s[i] = EQ /\ \A j \in 1..(i - 1) : s[j] # EQ
              ELSE 0
SplitKV(s) == LET e == FirstEq(s) IN
              IF e = 0 THEN [k |-> s, hv |-> FALSE, v |-> <<>>]
              ELSE [k |-> SubSeq(s, 1, e - 1), hv |-> TRUE, v |-> SubSeq(s, e + 1, Len(s))]

(* decode_txt: total on every byte string.  KeyOk(k) abstracts "the key is   *)
(* valid UTF-8" (keys that are not are skipped).                            *)
RECURSIVE DecodeR(_, _)
DecodeR(b, off) ==            \* off = 0-based offset
  IF off >= Len(b) THEN <<>>
  ELSE LET n == b[off + 1] IN
       IF n = 0 THEN <<>>
       ELSE IF off + 1 + n > Len(b) THEN <<>>
       ELSE <<SplitKV(SubSeq(b, off + 2, off + 1 + n))>> \o DecodeR(b, off + 1 + n)
DecodeTxt(b, KeyOk(_)) == SelectSeq(DecodeR(b, 0), LAMBDA p : KeyOk(p.k))

(* case-insensitive lookup: first property whose lower-cased key matches    *)
Lookup(ps, q) == LET hits == {i \in 1..Len(ps) : LowerB(ps[i].k) = LowerB(q)} IN
                 IF hits = {} THEN [found |-> FALSE]
                 ELSE LET i == CHOOSE i \in hits : \A j \in hits : i <= j IN
                      [found |-> TRUE, p |-> ps[i]]
=============================================================================
