SPECIFICATION Spec
CONSTANTS
  EagerKeys = FALSE
  SplitByFlush = FALSE
  KeepSubs = FALSE
INVARIANTS Holds EmitCase
CHECK_DEADLOCK FALSE
