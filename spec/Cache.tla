-------------------------------- MODULE Cache --------------------------------
(***************************************************************************)
(* Mechanism-level model of the record cache (DnsCache, src/dns_cache.rs,   *)
(* with the lifetime arithmetic of DnsRecord, src/dns_parser.rs): one pure   *)
(* operator per cache operation, over one state value                        *)
(*   c = [recs : id -> entry,  keys : set of <<map, key>>,                   *)
(*        subs : instance -> subtype PTR name (the first heard)]              *)
(* as the code has it:                                                       *)
(*   - five maps (ptr, srv, txt, addr, nsec) from an owner name to a vector  *)
(*     of records; A and AAAA share the addr map, keyed by the lower-cased   *)
(*     name, the others are keyed by the name as received;                   *)
(*   - two records are the same (DnsRecordExt::matches) when map, key, type, *)
(*     owner spelling (addresses: in any letter case), rdata, (SplitByFlush:  *)
(*     also the cache-flush bit) and - for addresses - the receiving          *)
(*     interface agree; a record keeps the spelling it was first stored with; *)
(*   - created / expires / refresh are absolute milliseconds; the marks are   *)
(*     created + ttl * {800, 850, 900, 950, 1000}.                            *)
(* The trace specification TraceCache.tla replays every recorded call of the *)
(* real cache through these operators and compares results and the complete  *)
(* content after every call; MCCache.tla checks that this mechanism refines   *)
(* the statement-level table Heard.tla that the daemon monitors use.          *)
(*                                                                          *)
(* A record r as it is received: [ty, n, nl, rk, tg, tgl, sub, ttl, fl] -     *)
(* type, owner as spelled, owner lower-cased, canonical rdata, target name    *)
(* (PTR alias, SRV host; "" otherwise) as spelled and lower-cased, subtype    *)
(* label of a subtype PTR owner ("" otherwise), TTL in seconds, flush bit.    *)
(***************************************************************************)
EXTENDS Naturals, Sequences, FiniteSets, Life
CONSTANTS EagerKeys,     \* TRUE: the map entry of a name is created before the "not for us" test (the pinned behaviour)
          SplitByFlush,  \* TRUE: copies that differ in the cache-flush bit are different records (the pinned behaviour)
          KeepSubs       \* TRUE: the instance -> subtype table is never cleaned (the pinned behaviour)

MapOf(ty) == CASE ty = "PTR" -> "ptr" [] ty = "SRV" -> "srv" [] ty = "TXT" -> "txt"
               [] ty \in {"A", "AAAA"} -> "addr" [] ty = "NSEC" -> "nsec" [] OTHER -> "none"
KeyOf(r)  == IF MapOf(r.ty) = "addr" THEN r.nl ELSE r.n
(* (the owner name of an address record is compared without regard to letter case, the others as spelled) *)
CId(r, idx) == <<MapOf(r.ty), KeyOf(r), r.ty, IF MapOf(r.ty) = "addr" THEN r.nl ELSE r.n, r.rk, IF SplitByFlush THEN r.fl ELSE FALSE,
                 IF MapOf(r.ty) = "addr" THEN idx ELSE 0>>
Ttl(r) == IF r.ttl = 0 THEN 1 ELSE r.ttl          \* the decoder turns the TTL 0 of a response record into 1

Empty == [recs |-> <<>>, keys |-> {}, subs |-> <<>>, held |-> {}, lazy |-> {}]      \* held: the <<map, key>> under which a record was ever stored; lazy: addr entries emptied by DropAddrs, left to the next eviction
Ids(c) == DOMAIN c.recs
Under(c, m, k) == {x \in Ids(c) : x[1] = m /\ x[2] = k}
Expired(c, x, t) == t >= c.recs[x].expires

(* prune_subtypes: an instance stays in the subtype table while the subtype PTR it was entered for is held *)
Prune(subs, recs) ==
  IF KeepSubs THEN subs
  ELSE [i \in {j \in DOMAIN subs : \E p \in DOMAIN recs : p[1] = "ptr" /\ p[2] = subs[j] /\ recs[p].tg = j} |-> subs[i]]

(* ------------------------------ add_or_update ---------------------------- *)
Add(c, r, idx, t, forus) ==
  LET m == MapOf(r.ty)  k == KeyOf(r)  id == CId(r, idx)  ttl == Ttl(r)
      subs1 == IF r.ty = "PTR" /\ forus /\ r.sub # "" /\ r.tg \notin DOMAIN c.subs
               THEN [i \in DOMAIN c.subs \cup {r.tg} |-> IF i \in DOMAIN c.subs THEN c.subs[i] ELSE r.n] ELSE c.subs
      bucket == Under(c, m, k)
      none == [c |-> [c EXCEPT !.subs = subs1], stored |-> FALSE, new |-> FALSE, ntimers |-> 0]
  IN IF m = "none" THEN none
     ELSE IF bucket = {} /\ ~forus
     THEN [none EXCEPT !.c.keys = IF EagerKeys THEN @ \cup {<<m, k>>} ELSE @]
     ELSE
       LET hit(x) == /\ r.fl /\ x \in bucket /\ x[3] = r.ty
                     /\ FlushHits(c.recs[x], t)
                     /\ (m = "addr" => x[7] = idx)
           recs1 == [x \in Ids(c) |-> IF hit(x) THEN Flushed(c.recs[x], t) ELSE c.recs[x]]
           old == id \in Ids(c)
           b == Born(ttl, t)
           e2 == IF old
                 THEN Restart(recs1[id], ttl, t)
                 ELSE [ttl |-> b.ttl, created |-> b.created, expires |-> b.expires, refresh |-> b.refresh,
                       tg |-> r.tg, tgl |-> r.tgl, src |-> idx, fl |-> r.fl, sub |-> r.sub, name |-> r.n]
       IN [c |-> [recs |-> [x \in Ids(c) \cup {id} |-> IF x = id THEN e2 ELSE recs1[x]],
                  keys |-> c.keys \cup {<<m, k>>}, subs |-> subs1, held |-> c.held \cup {<<m, k>>}, lazy |-> c.lazy],
           stored |-> TRUE,
           new |-> IF old THEN c.recs[id].ttl <= 1 /\ ttl > 1 ELSE TRUE,
           ntimers |-> Cardinality({x \in bucket : hit(x)})]

(* ----------------- evict_expired_services + evict_expired_addr ----------- *)
Evict(c, t) ==
  LET ptrs == {x \in Ids(c) : x[1] = "ptr"}
      (* instances reached from a PTR whose srv entry exists and holds no unexpired record *)
      srvGone == {i \in {c.recs[p].tg : p \in ptrs} :
                    <<"srv", i>> \in c.keys /\ \A x \in Under(c, "srv", i) : Expired(c, x, t)}
      left == {x \in Ids(c) : ~Expired(c, x, t)}
      gonePtr == {p \in ptrs : Expired(c, p, t)}
      newRecs == [x \in left |-> c.recs[x]]
      subs1 == IF gonePtr = {} /\ srvGone = {} THEN c.subs ELSE Prune(c.subs, newRecs)
  IN [c |-> [recs |-> newRecs,
             keys |-> {kk \in c.keys : kk[1] = "ptr"} \cup {<<x[1], x[2]>> : x \in left},
             subs |-> subs1, held |-> c.held, lazy |-> {}],
      svc  |-> {<<p[2], c.recs[p].tg>> : p \in {q \in ptrs : Expired(c, q, t) \/ c.recs[q].tg \in srvGone}},
      addr |-> {c.recs[x].name : x \in {y \in Ids(c) : y[1] = "addr" /\ Expired(c, y, t)}}]

(* --------------------------- service_verify_queries ---------------------- *)
(* dl = 0: no new deadline (only the queries are wanted)                      *)
Verify(c, inst, dl) ==
  LET srvs == Under(c, "srv", inst)
      hosts == {c.recs[x].tg : x \in srvs}       \* looked up as spelled: the addr map is keyed in lower case
      cut(x) == dl > 0 /\ (x \in srvs \/ (x[1] = "addr" /\ x[2] \in hosts)) /\ CutHits(c.recs[x], dl)
  IN IF <<"srv", inst>> \notin c.keys THEN [c |-> c, nq |-> 0, hosts |-> {}]
     ELSE [c |-> [c EXCEPT !.recs = [x \in Ids(c) |-> IF cut(x) THEN CutTo(c.recs[x], dl) ELSE c.recs[x]]],
           nq |-> 1 + 2 * Cardinality(srvs), hosts |-> hosts]

(* ------------------------------- refresh --------------------------------- *)
(* refresh_maybe on every record of S: the due ones move to their next mark   *)
Bump(c, S, t) == [c EXCEPT !.recs = [x \in Ids(c) |-> IF x \in S /\ Due(c.recs[x], t) THEN Bumped(c.recs[x]) ELSE c.recs[x]]]
Marks(c, S, t) == {NextMark(c.recs[x]) : x \in {y \in S : Due(c.recs[y], t)}}

LiveInsts(c, ty, t) == {c.recs[p].tg : p \in {q \in Under(c, "ptr", ty) : ~Expired(c, q, t)}}

RefreshPtr(c, ty, t) ==
  LET S == Under(c, "ptr", ty) IN [c |-> Bump(c, S, t), timers |-> Marks(c, S, t), due |-> {}]
(* refresh_maybe k times in a row (the look-up visits an instance once per unexpired PTR that points to it) *)
RECURSIVE BumpN(_, _, _)
BumpN(e, t, k) == IF k = 0 \/ ~Due(e, t) THEN e ELSE BumpN(Bumped(e), t, k - 1)
RECURSIVE MarksN(_, _, _)
MarksN(e, t, k) == IF k = 0 \/ ~Due(e, t) THEN {} ELSE {NextMark(e)} \cup MarksN(Bumped(e), t, k - 1)
RefreshSrvTxt(c, ty, t) ==
  LET insts == LiveInsts(c, ty, t)
      times(i) == Cardinality({p \in Under(c, "ptr", ty) : ~Expired(c, p, t) /\ c.recs[p].tg = i})
      S == UNION {Under(c, "srv", i) \cup Under(c, "txt", i) : i \in insts}
  IN [c |-> [c EXCEPT !.recs = [x \in Ids(c) |-> IF x \in S THEN BumpN(c.recs[x], t, times(x[2])) ELSE c.recs[x]]],
      timers |-> UNION {MarksN(c.recs[x], t, times(x[2])) : x \in S},
      due |-> {<<i, m>> \in insts \X {"srv", "txt"} : \E x \in Under(c, m, i) : Due(c.recs[x], t)}]
RefreshHosts(c, ty, t) ==
  LET insts == LiveInsts(c, ty, t)
      srvs == UNION {Under(c, "srv", i) : i \in insts}
      S == UNION {Under(c, "addr", c.recs[x].tgl) : x \in srvs}
  IN [c |-> Bump(c, S, t), timers |-> Marks(c, S, t),
      due |-> {c.recs[x].tg : x \in {y \in srvs : \E a \in Under(c, "addr", c.recs[y].tgl) : Due(c.recs[a], t)}}]
(* refresh_due_hostname_resolutions: one re-query, then the record just expires *)
RefreshHostname(c, host, t) ==
  LET S == {x \in Under(c, "addr", host) : Due(c.recs[x], t)}
  IN [c |-> [c EXCEPT !.recs = [x \in Ids(c) |-> IF x \in S THEN [c.recs[x] EXCEPT !.refresh = Pct(c.recs[x].created, c.recs[x].ttl, 100)] ELSE c.recs[x]]],
      timers |-> {}, due |-> {x[5] : x \in S}]

(* --------------------------- remove_service_type ------------------------- *)
Forget(c, ty) ==
  IF <<"ptr", ty>> \notin c.keys THEN c
  ELSE LET ptrs == Under(c, "ptr", ty)
           insts == {c.recs[p].tg : p \in ptrs}
           hosts == {c.recs[x].tgl : x \in UNION {Under(c, "srv", i) : i \in insts}}
           gone1 == ptrs \cup UNION {Under(c, "srv", i) \cup Under(c, "txt", i) : i \in insts}
           keys1 == c.keys \ ({<<"ptr", ty>>} \cup {<<m, i>> : m \in {"srv", "txt"}, i \in insts})
           stillSrv(h) == \E x \in Ids(c) \ gone1 : x[1] = "srv" /\ c.recs[x].tgl = h
           goneHosts == {h \in hosts : ~stillSrv(h)}
           gone == gone1 \cup UNION {Under(c, "addr", h) : h \in goneHosts}
       IN [recs |-> [x \in Ids(c) \ gone |-> c.recs[x]],
           keys |-> keys1 \ {<<"addr", h>> : h \in goneHosts},
           subs |-> Prune(c.subs, [x \in Ids(c) \ gone |-> c.recs[x]]),
           held |-> c.held, lazy |-> c.lazy \ {<<"addr", h>> : h \in goneHosts}]

(* --------------------------- remove_records_on_intf ---------------------- *)
(* the interface idx has gone: everything received on it is dropped          *)
DropIntf(c, idx) ==
  LET on(x) == c.recs[x].src = idx
      ptrKeys == {kk[2] : kk \in {k2 \in c.keys : k2[1] = "ptr"}}
      (* instances all of whose PTRs under a type were received on idx: fully removed *)
      removed == UNION {{<<K, c.recs[p].tg>> : p \in {q \in Under(c, "ptr", K) : on(q)
                            /\ ~\E r \in Under(c, "ptr", K) : ~on(r) /\ c.recs[r].tg = c.recs[q].tg}} : K \in ptrKeys}
      allRemoved == {r[2] : r \in removed}
      gone == {x \in Ids(c) : on(x) \/ (x[1] \in {"srv", "txt"} /\ x[2] \in allRemoved)}
      left == Ids(c) \ gone
      lostSrvTxt == {x[2] : x \in {y \in Ids(c) : y[1] \in {"srv", "txt"} /\ y[2] \notin allRemoved /\ on(y)}}
      hostsHit == {x[2] : x \in {y \in Ids(c) : y[1] = "addr" /\ on(y)}}
      viaHost == {x[2] : x \in {y \in left : y[1] = "srv" /\ c.recs[y].tgl \in hostsHit}}
      newRecs == [x \in left |-> c.recs[x]]
  IN [c |-> [recs |-> newRecs, keys |-> {<<x[1], x[2]>> : x \in left},
             subs |-> Prune(c.subs, newRecs), held |-> c.held, lazy |-> {}],
      removed |-> removed, modified |-> lostSrvTxt \cup viaHost]

(* ----------------------- remove_addrs_on_disabled_intf ------------------- *)
(* an IP version is disabled on (or has left) the interface idx: the addresses learned there are forgotten; *)
(* the emptied map entries go with the next eviction                                                         *)
DropAddrs(c, idx, v4, v6) ==
  LET gone == {x \in Ids(c) : x[1] = "addr" /\ x[7] = idx /\ ((x[3] = "A" /\ v4) \/ (x[3] = "AAAA" /\ v6))}
  IN [c EXCEPT !.recs = [x \in Ids(c) \ gone |-> c.recs[x]],
               !.lazy = @ \cup {<<"addr", x[2]>> : x \in gone}]

(* ------------------------------ get_known_answers ------------------------ *)
(* what a query for (name, type) lists as known: shared records in the first half of their life *)
Known(c, m, key, t) == {x \in Under(c, m, key) : ~c.recs[x].fl /\ ~(t > c.recs[x].created + c.recs[x].ttl * 500)}

(* ------------------------------ statements ------------------------------- *)
(* C20: no state is kept for a name of which no record is held; only a ptr      *)
(* entry may stay, empty, for a type of which a PTR was once stored              *)
KeysNeeded(c) == \A kk \in c.keys : Under(c, kk[1], kk[2]) # {} \/ (kk[1] = "ptr" /\ kk \in c.held) \/ kk \in c.lazy
(* C20: the subtype table only names instances a held subtype PTR points to    *)
SubsNeeded(c) == \A i \in DOMAIN c.subs : \E p \in Under(c, "ptr", c.subs[i]) : c.recs[p].tg = i
(* C11: lifetime arithmetic                                                     *)
WellFormed(c) == \A x \in Ids(c) : LET e == c.recs[x] IN
                   /\ e.ttl >= 1 /\ e.expires <= Pct(e.created, e.ttl, 100)
                   /\ e.refresh \in {Pct(e.created, e.ttl, p) : p \in {80, 85, 90, 95, 100}}
=============================================================================
