SPECIFICATION Spec
CONSTANTS
  PtrRule = "decreasing"
  CharStrGuard = TRUE
CONSTRAINT Track
POSTCONDITION Accepted
CHECK_DEADLOCK FALSE
