SPECIFICATION Spec
CONSTANTS Cap = 2
          MaxCalls = 4
          Drain = TRUE
          Flag = FALSE
          Window = TRUE
INVARIANTS InvCleanupOnce InvCleanBeforeShutdown InvOneShutdownReply InvFinal InvSubProtocol InvNoDangling InvAnsweredWhenTaken InvBigStep

CHECK_DEADLOCK FALSE
