SPECIFICATION Spec
CONSTANTS D = {1, 2, 3}
          MaxStart = 5
          MaxTime = 60
          Tiebreak = TRUE
          Backoff = 4
          MaxRen = 4
INVARIANTS TypeOK NoSharedName ThreeProbes OneWinner
PROPERTIES AllAnnounced
CHECK_DEADLOCK FALSE
