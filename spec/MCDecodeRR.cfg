SPECIFICATION Spec
CONSTANTS
  PtrRule = "decreasing"
  CharStrGuard = TRUE
  Alphabet = {0, 1, 2, 64, 192}
  MaxLen = 4
INVARIANTS NoPanic NoHang InsideRdata AgreesWithOracle
CHECK_DEADLOCK FALSE
