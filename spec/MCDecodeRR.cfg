SPECIFICATION Spec
CONSTANTS
  PtrRule = "decreasing"
  CharStrGuard = TRUE
  Alphabet = {0, 1, 2, 64, 192}
  EmitMax = 3
  MaxLen = 4
INVARIANTS EmitCase NoPanic NoHang InsideRdata AgreesWithOracle
CHECK_DEADLOCK FALSE
