---------------------------- MODULE DecodeMech ----------------------------
(***************************************************************************)
(* Mechanism-level transcription of the crate's decoder                    *)
(* (DnsIncoming::new -> read_header / read_questions / read_rr_records /   *)
(* read_name / read_char_string / read_type_bitmap / read_vec / read_ipv4  *)
(* / read_ipv6 / read_u16 / read_string in src/dns_parser.rs).             *)
(*                                                                         *)
(* Every place where the code indexes or slices `data` is written as a     *)
(* guarded read: if the code performs the access without a preceding       *)
(* length check the transcription returns pc = "oob" (= the code would     *)
(* panic) instead of "err".  read_name is a genuine step machine           *)
(* (NameInit / NameStep) so that TLC can decide termination; the rest is   *)
(* straight-line code and is transcribed functionally.                     *)
(*                                                                         *)
(* PtrRule selects the compression-pointer guard:                          *)
(*   "start"      - pointer < offset where this name field starts          *)
(*                  (the code before the repair: admits an endless walk)   *)
(*   "decreasing" - every jump must land below the previous bound          *)
(*                  (the repaired code)                                    *)
(* CharStrGuard selects whether read_char_string checks the offset before  *)
(* reading the length byte (FALSE = the code before the repair).           *)
(***************************************************************************)
EXTENDS Naturals, Sequences, FiniteSets, Wire, DecodeMechUtf8

CONSTANTS PtrRule, CharStrGuard

(* ------------------------------ read_name ------------------------------ *)
(* s.off   : cursor of the walk         s.ret : value left in self.offset   *)
(* s.limit : bound a pointer must stay below                                *)
NameInit(o) == [pc |-> "run", off |-> o, limit |-> o, ret |-> o, atEnd |-> FALSE,
                labels |-> <<>>, nlen |-> 0, steps |-> 0]

NameStep(b, s) ==
  LET t == [s EXCEPT !.steps = @ + 1] IN
  IF s.off >= Len(b) THEN [t EXCEPT !.pc = "err"]           \* `if offset >= data.len()`
  ELSE LET c == b[s.off + 1] IN
    IF c = 0 THEN [t EXCEPT !.pc = "ok", !.ret = IF s.atEnd THEN s.ret ELSE s.off + 1]
    ELSE IF c < 64 THEN
         IF s.off + 1 + c > Len(b) THEN [t EXCEPT !.pc = "err"]        \* `ending > data.len()`
         ELSE IF ~Utf8Ok(Sub(b, s.off + 1, c)) THEN [t EXCEPT !.pc = "err"]
         ELSE [t EXCEPT !.off = s.off + 1 + c,
                        !.labels = Append(@, Sub(b, s.off + 1, c)),
                        !.nlen = @ + c + 1]
    ELSE IF c >= 192 THEN
         IF Len(b) - s.off < 2 THEN [t EXCEPT !.pc = "err"]            \* `slice.len() < U16_SIZE`
         ELSE LET p == (c - 192) * 256 + b[s.off + 2] IN
              IF p >= s.limit THEN [t EXCEPT !.pc = "err"]
              ELSE [t EXCEPT !.off = p,
                             !.limit = IF PtrRule = "decreasing" THEN p ELSE s.limit,
                             !.atEnd = TRUE,
                             !.ret = IF s.atEnd THEN s.ret ELSE s.off + 2]
    ELSE [t EXCEPT !.pc = "err"]                                        \* 0x40 / 0x80 length types

(* functional closure with fuel; fuel exhaustion = "hang"                  *)
RECURSIVE NameRun(_, _, _)
NameRun(b, s, fuel) ==
  IF s.pc # "run" THEN s
  ELSE IF fuel = 0 THEN [s EXCEPT !.pc = "hang"]
  ELSE NameRun(b, NameStep(b, s), fuel - 1)

ReadName(b, o) == NameRun(b, NameInit(o), 2 * Len(b) + 4)

(* --------------------------- small readers ----------------------------- *)
Err(why) == [pc |-> "err", why |-> why]
Oob(why) == [pc |-> "oob", why |-> why]

(* read_char_string: `let length = self.data[self.offset]` then read_string *)
ReadCharString(b, o) ==
  IF o >= Len(b)
  THEN IF CharStrGuard THEN Err("char-string eof") ELSE Oob("read_char_string index")
  ELSE LET n == b[o + 1] IN
       IF Len(b) < o + 1 + n THEN Err("string eof")
       ELSE IF ~Utf8Ok(Sub(b, o + 1, n)) THEN Err("string utf8")
       ELSE [pc |-> "ok", next |-> o + 1 + n, bytes |-> Sub(b, o + 1, n)]

ReadTypeBitmap(b, o) ==
  IF Len(b) < o + 2 THEN Err("bitmap short")
  ELSE IF b[o + 1] # 0 THEN Err("bitmap block")
  ELSE LET bl == b[o + 2] IN
       IF bl < 1 \/ bl > 32 THEN Err("bitmap len")
       ELSE IF o + 2 + bl > Len(b) THEN Err("bitmap overflow")
       ELSE [pc |-> "ok", next |-> o + 2 + bl, bytes |-> Sub(b, o + 2, bl)]

(* RDATA readers; o = self.offset at the start of RDATA, rl = rdata_len.    *)
MechRdata(b, ty, o, rl) ==
  CASE ty \in {TPTR, TCNAME} ->
        LET n == ReadName(b, o) IN
        IF n.pc # "ok" THEN [pc |-> n.pc, why |-> "rdata name"]
        ELSE [pc |-> "ok", next |-> n.ret, kind |-> "name", target |-> n.labels, nlen |-> n.nlen]
    [] ty = TTXT ->
        IF Len(b) < o + rl THEN Err("txt eof")
        ELSE [pc |-> "ok", next |-> o + rl, kind |-> "bytes", bytes |-> Sub(b, o, rl), nlen |-> 0]
    [] ty = TSRV ->
        IF Len(b) - o < 2 THEN Err("u16")
        ELSE IF Len(b) - (o + 2) < 2 THEN Err("u16")
        ELSE IF Len(b) - (o + 4) < 2 THEN Err("u16")
        ELSE LET n == ReadName(b, o + 6) IN
          IF n.pc # "ok" THEN [pc |-> n.pc, why |-> "srv name"]
          ELSE [pc |-> "ok", next |-> n.ret, kind |-> "srv", target |-> n.labels, nlen |-> n.nlen,
                prio |-> U16(b, o), weight |-> U16(b, o + 2), port |-> U16(b, o + 4)]
    [] ty = THINFO ->
        LET c1 == ReadCharString(b, o) IN
        IF c1.pc # "ok" THEN c1
        ELSE LET c2 == ReadCharString(b, c1.next) IN
             IF c2.pc # "ok" THEN c2
             ELSE [pc |-> "ok", next |-> c2.next, kind |-> "hinfo", nlen |-> 0]
    [] ty = TA ->
        IF Len(b) < o + 4 THEN Err("ipv4 eof")
        ELSE [pc |-> "ok", next |-> o + 4, kind |-> "bytes", bytes |-> Sub(b, o, 4), nlen |-> 0]
    [] ty = TAAAA ->
        IF Len(b) < o + 16 THEN Err("ipv6 eof")
        ELSE [pc |-> "ok", next |-> o + 16, kind |-> "bytes", bytes |-> Sub(b, o, 16), nlen |-> 0]
    [] ty = TNSEC ->
        LET n == ReadName(b, o) IN
        IF n.pc # "ok" THEN [pc |-> n.pc, why |-> "nsec name"]
        ELSE LET bm == ReadTypeBitmap(b, n.ret) IN
             IF bm.pc # "ok" THEN bm
             ELSE [pc |-> "ok", next |-> bm.next, kind |-> "nsec", target |-> n.labels,
                   nlen |-> n.nlen, bytes |-> bm.bytes]
    [] OTHER -> [pc |-> "ok", next |-> o + rl, kind |-> "skip", nlen |-> 0]   \* unsupported: offset += rdata_len

(* one record of read_rr_records; isResp = the QR bit                      *)
MechRR(b, o, isResp) ==
  LET nm == ReadName(b, o) IN
  IF nm.pc # "ok" THEN [pc |-> nm.pc, why |-> "rr name"]
  ELSE IF Len(b) - nm.ret < 10 THEN Err("rr header")
  ELSE LET p  == nm.ret
           ty == U16(b, p)
           cl == U16(b, p + 2)
           rl == U16(b, p + 8)
           nx == p + 10 + rl
       IN IF nx > Len(b) THEN Err("rdata length")
          ELSE LET rd == MechRdata(b, ty, p + 10, rl) IN
               IF rd.pc # "ok" THEN rd
               ELSE IF rd.next # nx THEN Err("decode offset error")
               ELSE [pc |-> "ok", next |-> nx, skip |-> rd.kind = "skip",
                     name |-> nm.labels, ty |-> ty, class |-> cl % 32768, flush |-> cl >= 32768,
                     ttl4 |-> IF isResp /\ Sub(b, p + 4, 4) = <<0,0,0,0>> THEN <<0,0,0,1>> ELSE Sub(b, p + 4, 4),
                     rd |-> rd, maxn |-> IF nm.nlen > rd.nlen THEN nm.nlen ELSE rd.nlen]

RECURSIVE MechRRs(_, _, _, _, _, _)
MechRRs(b, o, n, isResp, acc, maxn) ==
  IF n = 0 THEN [pc |-> "ok", next |-> o, rrs |-> acc, maxn |-> maxn]
  ELSE LET r == MechRR(b, o, isResp) IN
       IF r.pc # "ok" THEN r
       ELSE MechRRs(b, r.next, n - 1, isResp, IF r.skip THEN acc ELSE Append(acc, r),
                    IF r.maxn > maxn THEN r.maxn ELSE maxn)

RECURSIVE MechQs(_, _, _, _, _)
MechQs(b, o, n, acc, maxn) ==
  IF n = 0 THEN [pc |-> "ok", next |-> o, qs |-> acc, maxn |-> maxn]
  ELSE LET nm == ReadName(b, o) IN
       IF nm.pc # "ok" THEN [pc |-> nm.pc, why |-> "q name"]
       ELSE IF Len(b) - nm.ret < 4 THEN Err("question short")
       ELSE IF U16(b, nm.ret) \notin KnownTypes THEN Err("qtype unknown")
       ELSE MechQs(b, nm.ret + 4, n - 1,
                   Append(acc, [name |-> nm.labels, ty |-> U16(b, nm.ret)]),
                   IF nm.nlen > maxn THEN nm.nlen ELSE maxn)

(* DnsIncoming::new                                                         *)
MechParse(b) ==
  IF Len(b) < 12 THEN Err("header short")
  ELSE LET isResp == b[3] >= 128
           q == MechQs(b, 12, U16(b, 4), <<>>, 0) IN
    IF q.pc # "ok" THEN q
    ELSE LET an == MechRRs(b, q.next, U16(b, 6), isResp, <<>>, q.maxn) IN
      IF an.pc # "ok" THEN an
      ELSE LET ns == MechRRs(b, an.next, U16(b, 8), isResp, <<>>, an.maxn) IN
        IF ns.pc # "ok" THEN ns
        ELSE LET ar == MechRRs(b, ns.next, U16(b, 10), isResp, <<>>, ns.maxn) IN
          IF ar.pc # "ok" THEN ar
          ELSE [pc |-> "ok", qs |-> q.qs, an |-> an.rrs, ns |-> ns.rrs, ar |-> ar.rrs,
                maxn |-> ar.maxn]
=============================================================================
