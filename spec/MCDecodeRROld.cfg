SPECIFICATION Spec
CONSTANTS
  PtrRule = "start"
  CharStrGuard = FALSE
  Alphabet = {0, 1, 2, 64, 192}
  EmitMax = 0
  MaxLen = 4
INVARIANTS NoPanic NoHang
CHECK_DEADLOCK FALSE
