---------------------------- MODULE TraceCompare ----------------------------
(***************************************************************************)
(* C08 comparison / renaming, implementation results against Compare.tla:  *)
(*  [e |-> "tiebreak", a, b, a_out, b_out]  the crate's Probe::tiebreaking   *)
(*     run from both sides on the record lists a and b ("lose" = defers)     *)
(*  [e |-> "rename", kind, in, out, want, first_len]  name_change /          *)
(*     hostname_change against the rule 'x' -> 'x (2)', 'h' -> 'h-2'         *)
(* Clauses: C08.compare (verdict = spec's, from both sides: opposite),       *)
(* C08.rename (result = the rule's), C08.encodable (first label <= 63).      *)
(***************************************************************************)
EXTENDS Compare, TLC, TLCExt, Json, IOUtils
Rec == ndJsonDeserialize(IOEnv.TRACE)
VARIABLES l, viol
vars == <<l, viol>>
Ev == Rec[l]
V(tag, cond, extra) == IF cond THEN {} ELSE {<<tag, l, Ev.id, extra>>}
Want(x, y) == IF Loses(x, y) THEN "lose" ELSE "keep"
Tiebreak == /\ Ev.e = "tiebreak"
            /\ viol' = viol \cup V("C08.compare", Ev.a_out = Want(Ev.a, Ev.b) /\ Ev.b_out = Want(Ev.b, Ev.a),
                                   <<"verdicts differ from class / type / RDATA / count order", Ev.a_out, Want(Ev.a, Ev.b), Ev.b_out, Want(Ev.b, Ev.a)>>)
                            \cup V("C08.opposite", (Ev.a # Ev.b) => ({Ev.a_out, Ev.b_out} = {"lose", "keep"}),
                                   <<"both sides reach the same verdict", Ev.a_out, Ev.b_out>>)
Rename == /\ Ev.e = "rename"
          /\ viol' = viol \cup V("C08.rename", Ev.want_ok => Ev.out = Ev.want, <<"new name is not the next one of the rule", Ev["in"], Ev.out, Ev.want>>)
                          \cup V("C08.encodable", Ev.first_len <= 63, <<"renamed first label is longer than 63 bytes", Ev["in"], Ev.first_len>>)
Init == l = 1 /\ viol = {}
Next == l <= Len(Rec) /\ l' = l + 1 /\ (Tiebreak \/ Rename)
Spec == Init /\ [][Next]_vars
Track == TLCSet(1, viol)
Accepted ==
  LET consumed == TLCGet("stats").diameter - 1 IN
  /\ PrintT(<<"RESULT", ToJson([consumed |-> consumed, total |-> Len(Rec), viol |-> TLCGet(1)])>>)
  /\ consumed = Len(Rec)
  /\ TLCGet(1) = {}
=============================================================================
