----------------------------- MODULE CrateView -----------------------------
(***************************************************************************)
(* How a record returned by the crate's decoder (plain-data view logged by *)
(* the harness: names as the bytes of the produced strings) compares with  *)
(* a record read by the oracle Wire!ParseMsg from the same bytes.          *)
(***************************************************************************)
EXTENDS Wire

Supported == {TA, TCNAME, TPTR, THINFO, TTXT, TAAAA, TSRV, TNSEC}

Has(r, f) == f \in DOMAIN r

NormTtl(t4, isResp) == IF isResp /\ t4 = <<0, 0, 0, 0>> THEN <<0, 0, 0, 1>> ELSE t4

(* c : record as returned by the crate; r : record as read by the oracle   *)
SameRec(c, r, isResp) ==
  /\ c.n = Dotted(r.name)
  /\ c.ty = r.ty /\ c.cls = r.class /\ c.fl = r.flush
  /\ c.ttl4 = NormTtl(r.ttl4, isResp)
  /\ CASE r.rd.kind = "name"  -> Has(c, "t") /\ c.t = Dotted(r.rd.target)
       [] r.rd.kind = "srv"   -> /\ Has(c, "t") /\ c.t = Dotted(r.rd.target)
                                 /\ Has(c, "srv") /\ c.srv = <<r.rd.prio, r.rd.weight, r.rd.port>>
       [] r.rd.kind = "bytes" -> Has(c, "x") /\ c.x = r.rd.bytes
       [] r.rd.kind = "nsec"  -> TRUE    \* the facade cannot see NSEC rdata (private fields): header only
       [] OTHER -> TRUE

SameSection(cs, rs, isResp) ==
  \E keep \in {SelectSeq(rs, LAMBDA r : r.ty \in Supported)} :
    /\ Len(cs) = Len(keep)
    /\ \A i \in 1..Len(cs) : SameRec(cs[i], keep[i], isResp)

SameQs(cq, oq) == /\ Len(cq) = Len(oq)
                  /\ \A i \in 1..Len(cq) : cq[i].n = Dotted(oq[i].name) /\ cq[i].ty = oq[i].ty

MaxNameLen(e) ==
  LET names == {e.q[i].n : i \in 1..Len(e.q)}
               \cup UNION {{s[i].n : i \in 1..Len(s)} \cup {s[i].t : i \in {j \in 1..Len(s) : Has(s[j], "t")}}
                           : s \in {e.an, e.ns, e.ar}}
  IN IF names = {} THEN 0 ELSE CHOOSE m \in {Len(n) : n \in names} : \A n \in names : Len(n) <= m

InsideP(o, e) ==     \* o: the oracle's parse of the bytes, e: what the crate returned
  /\ o.ok
  /\ SameQs(e.q, o.qs)
  /\ SameSection(e.an, o.an, o.qr) /\ SameSection(e.ns, o.ns, o.qr) /\ SameSection(e.ar, o.ar, o.qr)

Inside(e) == \E o \in {ParseMsg(e.b)} : InsideP(o, e)
=============================================================================
