SPECIFICATION Spec
CONSTANTS
  MaxArr = 3
  MaxTime = 4000
INVARIANTS LiveOnlyWithinTtl LatestGoverns GoodbyeWithdraws FlushRule VerifyShortens
CHECK_DEADLOCK FALSE
