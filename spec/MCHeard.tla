------------------------------- MODULE MCHeard -------------------------------
(***************************************************************************)
(* Model-checking instance for Heard.tla: the incremental table used by    *)
(* the trace monitors (Arrive / Usable / Shorten) against a declarative     *)
(* reading of the statements over the raw delivery log:                     *)
(*   LiveOnlyWithinTtl   usable => the latest copy was received with TTL t  *)
(*                       less than t seconds ago (C03, C11 "never after")    *)
(*   LatestGoverns       an unexpired, undisplaced latest copy is usable     *)
(*   GoodbyeWithdraws    latest copy TTL 0 => not usable, gone after 1 s     *)
(*   FlushRule           a cache-flush copy of ANOTHER record of the rrset  *)
(*                       makes records older than 1 s expire 1 s later;      *)
(*                       records of the same burst and the flushing record   *)
(*                       itself are kept (C11)                               *)
(*   VerifyShortens      after verify, the SRV is gone at the deadline       *)
(*                       unless a fresh copy arrived                         *)
(* Two records of one rrset (SRV with two rdata values), TTL 0..3 s, ticks   *)
(* of 500 ms, at most MaxArr arrivals.                                       *)
(***************************************************************************)
EXTENDS Heard, TLC
CONSTANTS MaxArr, MaxTime

Rk == {"r1", "r2"}
Mk(rk, ttl, fl) == [ty |-> "SRV", n |-> [k |-> "i._t.", u |-> "i._t.", s |-> "i._t.", sk |-> "i._t."], rk |-> rk, ttl |-> ttl, fl |-> fl,
                    t |-> [k |-> "h.", u |-> "h.", s |-> "h.", sk |-> "h."], po |-> 1]
Id(rk) == <<"SRV", "i._t.", rk, 0>>

VARIABLES tab, now, log, ver
vars == <<tab, now, log, ver>>
Init == tab = <<>> /\ now = 0 /\ log = <<>> /\ ver = <<>>
Tick == now < MaxTime /\ now' = now + 500 /\ UNCHANGED <<tab, log, ver>>
Recv(rk, ttl, fl) == /\ Len(log) < MaxArr
                     /\ tab' = Arrive(tab, Mk(rk, ttl, fl), 2, now, TRUE)
                     /\ log' = Append(log, [rk |-> rk, ttl |-> ttl, fl |-> fl, at |-> now])
                     /\ UNCHANGED <<now, ver>>
Verify == /\ ver = <<>> /\ tab # <<>>
          /\ tab' = Shorten(tab, "i._t.", now + 1000, now)
          /\ ver' = <<now>>
          /\ UNCHANGED <<now, log>>
Next == Tick \/ Verify \/ \E rk \in Rk, ttl \in 0..3, fl \in BOOLEAN : Recv(rk, ttl, fl)
Spec == Init /\ [][Next]_vars

Arrs(rk) == {i \in 1..Len(log) : log[i].rk = rk}
LatestIdx(rk) == CHOOSE i \in Arrs(rk) : \A j \in Arrs(rk) : j <= i
Other(rk) == IF rk = "r1" THEN "r2" ELSE "r1"
(* a flush copy of the other record displaces rk: received after rk's latest copy + 1 s *)
Displacers(rk) == {i \in Arrs(Other(rk)) : log[i].fl /\ i > LatestIdx(rk) /\ log[i].at > log[LatestIdx(rk)].at + 1000}
LiveOnlyWithinTtl == \A rk \in Rk : Usable(tab, Id(rk), now) =>
      /\ Arrs(rk) # {}
      /\ LET a == log[LatestIdx(rk)] IN a.ttl > 0 /\ a.at <= now /\ now < a.at + 1000 * a.ttl
LatestGoverns == \A rk \in Rk : (Arrs(rk) # {} /\ Displacers(rk) = {} /\ ver = <<>>) =>
      LET a == log[LatestIdx(rk)] IN (a.ttl > 0 /\ now < a.at + 1000 * a.ttl) => Usable(tab, Id(rk), now)
GoodbyeWithdraws == \A rk \in Rk : (Arrs(rk) # {} /\ log[LatestIdx(rk)].ttl = 0) =>
      /\ ~Usable(tab, Id(rk), now)
      /\ (now >= log[LatestIdx(rk)].at + 1000 => ~(Id(rk) \in DOMAIN tab /\ now < tab[Id(rk)].exp))
FlushRule == \A rk \in Rk : Arrs(rk) # {} =>
      /\ \A i \in Displacers(rk) : now >= log[i].at + 1000 => ~Usable(tab, Id(rk), now)
      \* same burst: a flush copy within one second of rk's latest copy does not shorten it
      /\ (Displacers(rk) = {} /\ ver = <<>> /\ log[LatestIdx(rk)].ttl > 0) => tab[Id(rk)].exp = log[LatestIdx(rk)].at + 1000 * log[LatestIdx(rk)].ttl
(* verify at V with deadline V + 1 s: a copy received before V is gone from the deadline on *)
VerifyShortens == \A rk \in Rk : (ver # <<>> /\ Arrs(rk) # {} /\ LatestIdx(rk) \in {j \in 1..Len(log) : log[j].at <= ver[1]}
                                  /\ now >= ver[1] + 1000)
      => (log[LatestIdx(rk)].at < ver[1] => ~Usable(tab, Id(rk), now))
=============================================================================
