---------------------------- MODULE MCProbeCases ----------------------------
(* Start-tick vectors of ProbeMech.tla for two and three claimants, with the  *)
(* outcome the mechanism reaches when every daemon reads its inbox as soon as  *)
(* it can (one canonical interleaving), printed as cases for the `conflict`    *)
(* driver (spec -> implementation): the real daemons are started at these      *)
(* offsets (tick * 250 ms plus a seeded jitter below one tick) and the         *)
(* recorded run is judged by TraceRespond / TraceConflict.                      *)
EXTENDS Naturals, Sequences, TLC, Json
CONSTANTS MaxStart
VARIABLES st
Vecs == UNION {[1..n -> 0..MaxStart] : n \in 2..3}
Init == st \in Vecs
Next == UNCHANGED st
Spec == Init /\ [][Next]_st
EmitCase == PrintT(<<"CASE", ToJson([start |-> st])>>)
=============================================================================
