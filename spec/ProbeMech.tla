------------------------------ MODULE ProbeMech ------------------------------
(***************************************************************************)
(* Mechanism-level model of probing, tie-breaking and conflict renaming     *)
(* (RFC 6762 sections 8.1 - 8.3 and 9 as the crate implements them: the      *)
(* probing handler, Probe::tiebreaking, the one-second deferral after a      *)
(* lost tiebreak, conflict_handler / name_change on a conflicting response,  *)
(* defence of an announced name) for a set of daemons on one loss-free link  *)
(* that all want the same name.                                              *)
(*                                                                          *)
(* Time advances in ticks of 250 ms (the probe interval).  A daemon's loop   *)
(* iteration is one atomic step: it first reads everything that is in its    *)
(* inbox, then does the time-driven work that is due.  Everything a daemon   *)
(* multicasts travels to every other daemon as a datagram of its own, which  *)
(* arrives some time within the tick (latency below 250 ms) and is read in   *)
(* the receiver's next iteration: TLC explores every order of arrivals and   *)
(* iterations - so two daemons can both send before either has heard the     *)
(* other - and every vector of start ticks.                                  *)
(*                                                                          *)
(* A daemon's claim is its rank (its record data: ranks are distinct, the    *)
(* comparison of Compare.tla is abstracted to the order of ranks) and the    *)
(* number of times it has renamed (the name it goes by: base, base (2), ..). *)
(***************************************************************************)
EXTENDS Naturals, FiniteSets, Sequences
CONSTANTS D,          \* daemons: a set of ranks (naturals), e.g. {1, 2, 3}
          MaxStart,   \* start ticks are drawn from 0..MaxStart
          MaxTime,    \* model-checking horizon in ticks
          MaxRen,     \* bound on renames (model checking only)
          Tiebreak,   \* BOOLEAN: simultaneous probes are compared and the loser defers (FALSE: nobody defers)
          Backoff     \* ticks a loser waits before it starts over (4 = one second)

VARIABLES now,      \* current tick
          start,    \* d -> tick at which d registers
          ph,       \* d -> "idle" | "probing" | "announced"
          ren,      \* d -> number of renames so far (name index)
          sent,     \* d -> probes sent since the last (re)start of probing
          next,     \* d -> tick of its next time-driven step
          wire,     \* datagrams in flight: [to, m]  (they arrive within the tick, in any order relative to the iterations)
          inbox,    \* d -> set of messages waiting: [k, name, rank]   k \in {"probe", "resp"}
          hist      \* d -> ticks of the probes sent for the name it finally announces (since the last restart)
vars == <<now, start, ph, ren, sent, next, wire, inbox, hist>>

Msg(k, d) == [k |-> k, name |-> ren[d], rank |-> d]
Others(d) == D \ {d}
(* multicast: one datagram per other daemon goes onto the wire               *)
Cast(w, d, ms) == w \cup {[to |-> x, m |-> m] : x \in Others(d), m \in ms}

Init == /\ now = 0
        /\ start \in [D -> 0..MaxStart]
        /\ ph = [d \in D |-> "idle"] /\ ren = [d \in D |-> 0] /\ sent = [d \in D |-> 0]
        /\ next = start /\ wire = {} /\ inbox = [d \in D |-> {}] /\ hist = [d \in D |-> <<>>]

(* ------------------------ reading the inbox ------------------------------ *)
(* what a daemon does with the messages about the name it goes by            *)
Mine(d) == {m \in inbox[d] : m.name = ren[d]}
(* a response with other data for a name we are probing or have announced: rename, probe the new name from scratch *)
Conflicting(d) == {m \in Mine(d) : m.k = "resp" /\ m.rank # d}
(* a competing probe with lexicographically later data while we probe: we lose, wait a second, start over *)
Losing(d) == IF Tiebreak THEN {m \in Mine(d) : m.k = "probe" /\ m.rank > d} ELSE {}
(* a probe for a name we have announced: we defend it with a response        *)
Defend(d) == {m \in Mine(d) : m.k = "probe" /\ m.rank # d}

(* one loop iteration of daemon d                                            *)
Iterate(d) ==
  /\ inbox[d] # {} \/ (ph[d] # "announced" /\ next[d] <= now)
  /\ LET conflict == ph[d] # "idle" /\ Conflicting(d) # {}
         lose     == ph[d] = "probing" /\ ~conflict /\ Losing(d) # {}
         defend   == ph[d] = "announced" /\ ~conflict /\ Defend(d) # {}
         \* state after reading
         ren1  == IF conflict THEN ren[d] + 1 ELSE ren[d]
         ph1   == IF conflict THEN "probing" ELSE ph[d]
         sent1 == IF conflict \/ lose THEN 0 ELSE sent[d]
         next1 == IF conflict THEN now ELSE IF lose THEN now + Backoff ELSE next[d]
         hist1 == IF conflict \/ lose THEN <<>> ELSE hist[d]
         \* time-driven work
         due     == ph1 # "announced" /\ next1 <= now
         begin   == due /\ ph1 = "idle" /\ now >= start[d]
         probe   == due /\ (ph1 = "probing" \/ begin) /\ sent1 < 3
         finish  == due /\ ph1 = "probing" /\ sent1 = 3
         out == (IF defend THEN {[k |-> "resp", name |-> ren1, rank |-> d]} ELSE {})
                \cup (IF probe THEN {[k |-> "probe", name |-> ren1, rank |-> d]} ELSE {})
                \cup (IF finish THEN {[k |-> "resp", name |-> ren1, rank |-> d]} ELSE {})
     IN /\ ren1 <= MaxRen
        /\ ren' = [ren EXCEPT ![d] = ren1]
        /\ ph' = [ph EXCEPT ![d] = IF finish THEN "announced" ELSE IF probe THEN "probing" ELSE ph1]
        /\ sent' = [sent EXCEPT ![d] = IF probe THEN sent1 + 1 ELSE sent1]
        /\ next' = [next EXCEPT ![d] = IF probe THEN now + 1 ELSE next1]
        /\ hist' = [hist EXCEPT ![d] = IF probe THEN Append(hist1, now) ELSE hist1]
        /\ inbox' = [inbox EXCEPT ![d] = {}]
        /\ wire' = Cast(wire, d, out)
  /\ UNCHANGED <<now, start>>

(* a datagram arrives                                                        *)
Deliver == \E p \in wire : /\ wire' = wire \ {p}
                           /\ inbox' = [inbox EXCEPT ![p.to] = @ \cup {p.m}]
                           /\ UNCHANGED <<now, start, ph, ren, sent, next, hist>>

(* time passes when nobody has anything to read or to do at this tick        *)
Quiet == wire = {} /\ \A d \in D : inbox[d] = {} /\ (ph[d] = "announced" \/ next[d] > now)
Tick == /\ Quiet /\ now < MaxTime
        /\ now' = now + 1
        /\ UNCHANGED <<start, ph, ren, sent, next, wire, inbox, hist>>

Next == (\E d \in D : Iterate(d)) \/ Deliver \/ Tick
Spec == Init /\ [][Next]_vars /\ WF_vars(Next)

(* ------------------------------ properties ------------------------------ *)
TypeOK == /\ ph \in [D -> {"idle", "probing", "announced"}] /\ \A d \in D : sent[d] \in 0..3
(* C08: two daemons never hold the same name                                 *)
NoSharedName == \A a, b \in D : (a # b /\ ph[a] = "announced" /\ ph[b] = "announced") => ren[a] # ren[b]
(* C07: a name is announced only after three probes, a tick apart, the last one a tick ago *)
ThreeProbes == \A d \in D : ph[d] = "announced" =>
                  /\ Len(hist[d]) = 3 /\ hist[d][2] >= hist[d][1] + 1 /\ hist[d][3] >= hist[d][2] + 1
(* C08: when everything has settled, everybody is announced, exactly one holds the original name *)
Settled == Quiet /\ \A d \in D : ph[d] = "announced"
OneWinner == Settled => Cardinality({d \in D : ren[d] = 0}) = 1
(* ... and every registration gets there (bounded time: C07)                 *)
AllAnnounced == <>(\A d \in D : ph[d] = "announced")
(* with two claimants the loser takes the first renamed name                 *)
TwoClaimants == (Cardinality(D) = 2 /\ Settled) => {ren[d] : d \in D} = {0, 1}
(* A daemon that lost a tiebreak does not send a probe again before the back-off is over (by construction: next1 =  *)
(* now + Backoff, counted from the iteration that read the winning probe, and a probe needs next1 <= now); by then   *)
(* it has seen the winner's announcement or defence and renames instead of fighting on.  The code is held to this    *)
(* step by the trace clause C08.backoff (TraceRespond.tla).                                                          *)
=============================================================================
