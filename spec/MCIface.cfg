SPECIFICATION Spec
CONSTANTS MaxLen = 2
          Emit = TRUE
INVARIANTS Twin Default LastAll NoMatch LastWins AddrIsIfFam EmitCase
CHECK_DEADLOCK FALSE
