SPECIFICATION Spec
CONSTANTS MaxEntries = 4
INVARIANTS OracleRoundTrip EmitCase
CHECK_DEADLOCK FALSE
