SPECIFICATION Spec
CONSTANTS
  Cap = 8
  MaxTime = 40
INVARIANTS Declarative GapsDouble NeverFaster
CHECK_DEADLOCK FALSE
