SPECIFICATION Spec
CONSTANTS D = {1, 2}
          MaxStart = 8
          MaxTime = 40
          Tiebreak = TRUE
          Backoff = 4
          MaxRen = 3
INVARIANTS TypeOK NoSharedName ThreeProbes OneWinner TwoClaimants
PROPERTIES AllAnnounced
CHECK_DEADLOCK FALSE
