SPECIFICATION Spec
CONSTANTS
  Limit = 5
  MaxProps = 3
  MaxBytes = 7
INVARIANTS RoundTrip ChunkBound LookupCI DecodeTotal EmitCase
CHECK_DEADLOCK FALSE
