------------------------------ MODULE Responder ------------------------------
(***************************************************************************)
(* Property-level model of the responder side (C06 C07 C09 C10 C18):       *)
(* what a daemon may / must put on the wire for its registered services,   *)
(* as a function of the registrations made through the API, the interface  *)
(* table and what has been seen on the wire so far.  Pure operators; the    *)
(* trace monitor TraceRespond.tla supplies the history.                     *)
(*                                                                         *)
(* A registration g is the record logged at the `register` call:           *)
(*  [fn, fnk, ty, tyk, sub, host, hostk, port, prio, weight, addrs, auto,   *)
(*   probe, txtx, hostttl, otherttl]  (names: given spelling and lower-     *)
(*  cased key).  Records are compared in the normal form                    *)
(*  [k: lower-cased owner, ty, rk: canonical rdata string, ttl, fl].        *)
(***************************************************************************)
EXTENDS Naturals, Sequences, FiniteSets

Range(s) == {s[i] : i \in 1..Len(s)}

(* ------------------------------ subnets ------------------------------- *)
Pow2(n) == CASE n = 0 -> 1 [] n = 1 -> 2 [] n = 2 -> 4 [] n = 3 -> 8 [] n = 4 -> 16
             [] n = 5 -> 32 [] n = 6 -> 64 [] n = 7 -> 128 [] OTHER -> 256
(* a, b : octet sequences of equal length; p : prefix length in bits       *)
SameNet(a, b, p) ==
  /\ Len(a) = Len(b)
  /\ \A i \in 1..Len(a) :
       LET bitsBefore == 8 * (i - 1) IN
       IF p >= bitsBefore + 8 THEN a[i] = b[i]
       ELSE IF p <= bitsBefore THEN TRUE
       ELSE (a[i] \div Pow2(8 - (p - bitsBefore))) = (b[i] \div Pow2(8 - (p - bitsBefore)))

(* interface table : sequence of [name, idx, up, addrs : Seq([ip, o, p, v4])] *)
IfByIdx(ifs, idx) == {x \in Range(ifs) : x.idx = idx /\ x.up}
IfAddrs(ifs, idx) == UNION {Range(x.addrs) : x \in IfByIdx(ifs, idx)}
AllIfAddrs(ifs) == UNION {Range(x.addrs) : x \in {y \in Range(ifs) : y.up}}
OnLink(a, ifs, idx) == \E ia \in IfAddrs(ifs, idx) : ia.v4 = a.v4 /\ SameNet(a.o, ia.o, ia.p)

(* addresses a registration publishes (automatic addressing follows the     *)
(* interface table)                                                         *)
EffAddrs(g, ifs) == Range(g.addrs) \cup (IF g.auto THEN {[ip |-> a.ip, o |-> a.o, v4 |-> a.v4] : a \in AllIfAddrs(ifs)} ELSE {})
(* C18/C06: the addresses of g that belong on interface idx                 *)
Link(g, ifs, idx) == {a \in EffAddrs(g, ifs) : OnLink(a, ifs, idx)}
LinkFam(g, ifs, idx, v4) == {a \in Link(g, ifs, idx) : a.v4 = v4}

(* --------------------- the records of a registration -------------------- *)
Num(n) == n   \* placeholder for readability
SrvKey(prio, weight, port, host) == <<prio, weight, port, host>>

RecPTR(g)  == [k |-> g.tyk, ty |-> "PTR", rk |-> g.fn, ttl |-> g.otherttl, fl |-> FALSE]
RecSub(g)  == [k |-> g.subk, ty |-> "PTR", rk |-> g.fn, ttl |-> g.otherttl, fl |-> FALSE]
RecSRV(g)  == [k |-> g.fnk, ty |-> "SRV", rk |-> g.srvrk, ttl |-> g.hostttl, fl |-> TRUE]
RecTXT(g)  == [k |-> g.fnk, ty |-> "TXT", rk |-> g.txtx, ttl |-> g.otherttl, fl |-> TRUE]
RecAddr(g, a) == [k |-> g.hostk, ty |-> IF a.v4 THEN "A" ELSE "AAAA", rk |-> a.ip,
                  ttl |-> g.hostttl, fl |-> TRUE]
HasSub(g) == g.subk # ""

AddrRecs(g, as) == {RecAddr(g, a) : a \in as}
(* everything an announcement of g on interface idx over family v4 carries  *)
AnnounceSet(g, ifs, idx, v4) ==
  {RecPTR(g), RecSRV(g), RecTXT(g)} \cup (IF HasSub(g) THEN {RecSub(g)} ELSE {})
  \cup AddrRecs(g, LinkFam(g, ifs, idx, v4))

WithTtl(rs, t) == {[r EXCEPT !.ttl = t] : r \in rs}
NoFlush(rs) == {[r EXCEPT !.fl = FALSE] : r \in rs}

(* wire record -> normal form                                               *)
Norm(r) == [k |-> r.n.k, ty |-> r.ty, rk |-> r.rk, ttl |-> r.ttl, fl |-> r.fl]
NormSet(rs) == {Norm(rs[i]) : i \in 1..Len(rs)}
Ident(r) == [k |-> r.k, ty |-> r.ty, rk |-> r.rk]          \* identity without ttl / flush

(* ---------------------- known-answer suppression (C10) ------------------ *)
(* ka : the query's answer section as {[r : normal form, u : owner spelling]}*)
(* An answer must be left out if the same record is listed with more than    *)
(* half its TTL, it must be kept if no listing reaches half; in between, or  *)
(* when the listing spells the owner name in another letter case than the    *)
(* answer would, either is accepted (the statement does not say that known   *)
(* answers are matched case-insensitively).                                  *)
MustOmit(p, ka) == \E x \in ka : Ident(x.r) = Ident(p.r) /\ x.u = p.u /\ x.r.ttl > p.r.ttl \div 2      \* 2x > a, overflow-free
MayOmit(p, ka)  == \E x \in ka : Ident(x.r) = Ident(p.r) /\ x.r.ttl >= (p.r.ttl + 1) \div 2           \* 2x >= a
KnownOf(rs) == {[r |-> Norm(rs[i]), u |-> rs[i].n.u] : i \in 1..Len(rs)}

(* ------------------------- answering a question ------------------------- *)
MetaName == "_services._dns-sd._udp.local."
W(r, u) == [r |-> r, u |-> u]

(* q : [k, u, ty] lower-cased name, spelling as asked, type string          *)
(* live : the registrations announced on this interface                     *)
(* returns [must : answers required, may : answers permitted (superset)],   *)
(* each a set of [r : record, u : the owner spelling the answer would use]  *)
AnswerFor(q, live, ifs, idx, v4q) ==
  LET ptrSvcs  == {g \in live : q.ty = "PTR" /\ (q.u = g.ty \/ (HasSub(g) /\ q.u = g.sub))
                                /\ LinkFam(g, ifs, idx, v4q) # {}}
      metaSvcs == {g \in live : q.ty = "PTR" /\ q.u = MetaName}
      instSvcs == {g \in live : q.ty \in {"SRV", "TXT", "ANY"} /\ q.k = g.fnk}
      instOK   == {g \in instSvcs : LinkFam(g, ifs, idx, v4q) # {}}
      hostSvcs == {g \in live : q.ty \in {"A", "AAAA", "ANY"} /\ q.k = g.hostk}
      hostAddrs(g) == {a \in Link(g, ifs, idx) : (q.ty = "A" => a.v4) /\ (q.ty = "AAAA" => ~a.v4)}
      instRecs(g) == (IF q.ty \in {"SRV", "ANY"} THEN {W(RecSRV(g), q.u)} ELSE {})
                     \cup (IF q.ty \in {"TXT", "ANY"} THEN {W(RecTXT(g), q.u)} ELSE {})
      must == {W(RecPTR(g), g.ty) : g \in ptrSvcs}
              \cup {W([k |-> "_services._dns-sd._udp.local.", ty |-> "PTR", rk |-> g.ty, ttl |-> g.otherttl, fl |-> FALSE], MetaName) : g \in metaSvcs}
              \cup UNION {instRecs(g) : g \in instOK}
              \cup UNION {{W(r, g.host) : r \in AddrRecs(g, hostAddrs(g))} : g \in hostSvcs}
      (* a service reachable on this link only over the other family may or  *)
      (* may not be answered for SRV/TXT: the statement is silent            *)
      may  == must \cup UNION {instRecs(g) : g \in instSvcs}
                   \cup {W(RecSub(g), g.sub) : g \in {x \in ptrSvcs : HasSub(x)}}
  IN [must |-> must, may |-> may, ptr |-> ptrSvcs]

(* additionals brought by a PTR answer for g / by an SRV answer for g       *)
PtrAdditionals(g, ifs, idx, v4q) ==
  {RecSRV(g), RecTXT(g)} \cup AddrRecs(g, LinkFam(g, ifs, idx, v4q))
  \cup (IF HasSub(g) THEN {RecSub(g)} ELSE {})
SrvAdditionals(g, ifs, idx, v4q) == AddrRecs(g, LinkFam(g, ifs, idx, v4q))
=============================================================================
