SPECIFICATION Spec
INVARIANTS EmitCase
CHECK_DEADLOCK FALSE
