SPECIFICATION Spec
CONSTANTS
  PtrRule = "decreasing"
  CharStrGuard = TRUE
  K = 5
INVARIANTS Terminates StepBound Bounded Whole EmitCase
CHECK_DEADLOCK FALSE
