SPECIFICATION Spec
CONSTANTS Cap = 2
          MaxCalls = 4
          Drain = FALSE
          Flag = FALSE
          Window = FALSE
INVARIANTS InvCleanupOnce InvCleanBeforeShutdown InvOneShutdownReply InvFinal InvSubProtocol InvNoDangling InvAnsweredWhenTaken InvBigStep

CHECK_DEADLOCK FALSE
