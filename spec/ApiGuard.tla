------------------------------ MODULE ApiGuard ------------------------------
(***************************************************************************)
(* The argument space of the public functions, by shape (C15).  A name is  *)
(* one or two labels in front of a suffix; a label is a byte length and a  *)
(* filling (what kind of characters, where the odd one sits).  The harness *)
(* turns a shape into a concrete string; what the property demands of any  *)
(* of them is the same - the call returns (no panic), the daemon stays      *)
(* alive through the deferred work and goes on serving - so the model       *)
(* contributes the enumeration of the space and the classification that     *)
(* the evidence reports (which classes were accepted / refused), and states  *)
(* which names could go on the wire at all.                                  *)
(***************************************************************************)
EXTENDS Naturals, Sequences, FiniteSets

Lens  == {0, 1, 2, 15, 16, 62, 63, 64, 65, 200, 255, 300}
Fills == {"a", "us", "upper", "digit", "dash", "ddash", "space", "nul", "bs", "tbs", "esc", "mb2", "mb3", "mb4"}
Suffixes == {"._tcp.local.", "._udp.local.", "._tcp.local", ".local.", "._tcp.local.local.", "", "._sub._tcp.local.", "._tcp.", "."}
Fns == {"browse", "browse_cache", "stop_browse", "resolve_hostname", "stop_resolve_hostname",
        "register_ty", "register_inst", "register_host", "unregister", "verify"}

Label(len, fill) == [len |-> len, fill |-> fill]
(* the second label, when there is one, comes from a reduced set             *)
Lens2  == {0, 1, 63, 64}
Fills2 == {"a", "mb2"}

(* could the name go on the wire: every label 1..63 bytes, 255 in all        *)
SuffixLabels(s) == CASE s = "._tcp.local." -> <<4, 5>> [] s = "._udp.local." -> <<4, 5>> [] s = "._tcp.local" -> <<4, 5>>
                     [] s = ".local." -> <<5>> [] s = "._tcp.local.local." -> <<4, 5, 5>> [] s = "" -> <<>>
                     [] s = "._sub._tcp.local." -> <<4, 4, 5>> [] s = "._tcp." -> <<4>> [] OTHER -> <<>>
RECURSIVE Sum(_)
Sum(q) == IF q = <<>> THEN 0 ELSE Head(q) + Sum(Tail(q))
Encodable(labels, suffix) ==
  LET ls == [i \in 1..Len(labels) |-> labels[i].len] \o SuffixLabels(suffix) IN
  /\ \A i \in 1..Len(ls) : ls[i] >= 1 /\ ls[i] <= 63
  /\ Sum(ls) + Len(ls) + 1 <= 255
=============================================================================
