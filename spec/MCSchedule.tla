----------------------------- MODULE MCSchedule -----------------------------
(***************************************************************************)
(* C19 on the model: the search-schedule automaton the trace monitor uses  *)
(* (next, gap; gap doubles up to Cap; browsing again REPLACES the           *)
(* schedule; stop removes it) produces, for every interleaving of browse /  *)
(* browse-again / stop with time, exactly the declarative schedule: the     *)
(* k-th query of a search started at s is due at s + sum_{i<k} min(2^i,Cap) *)
(* and never more than one schedule exists per type.  Time in seconds,      *)
(* Cap scaled down (8 instead of 3600).                                     *)
(***************************************************************************)
EXTENDS Naturals, Sequences, FiniteSets, TLC
CONSTANTS Cap, MaxTime

VARIABLES now, sched, start, asked
(* sched : <<>> or <<[next, gap]>> ; start : time of the latest browse ; asked : times of queries since then *)
vars == <<now, sched, start, asked>>
Init == now = 0 /\ sched = <<>> /\ start = 0 /\ asked = <<>>
Browse == /\ sched' = <<[next |-> now, gap |-> 1]>> /\ start' = now /\ asked' = <<>> /\ UNCHANGED now
Stop == /\ sched # <<>> /\ sched' = <<>> /\ UNCHANGED <<now, start, asked>>
Fire == /\ sched # <<>> /\ sched[1].next <= now
        /\ asked' = Append(asked, now)
        /\ sched' = <<[next |-> now + sched[1].gap, gap |-> IF 2 * sched[1].gap > Cap THEN Cap ELSE 2 * sched[1].gap]>>
        /\ UNCHANGED <<now, start>>
(* time passes only when nothing is due (the daemon is woken when it asks)   *)
Tick == /\ now < MaxTime /\ (IF sched = <<>> THEN TRUE ELSE sched[1].next > now)
        /\ now' = now + 1 /\ UNCHANGED <<sched, start, asked>>
Next == Browse \/ Stop \/ Fire \/ Tick
Spec == Init /\ [][Next]_vars

Pow(i) == IF i = 0 THEN 1 ELSE IF i = 1 THEN 2 ELSE IF i = 2 THEN 4 ELSE IF i = 3 THEN 8 ELSE IF i = 4 THEN 16 ELSE 32
Min(a, b) == IF a < b THEN a ELSE b
RECURSIVE Due(_)
Due(k) == IF k = 0 THEN 0 ELSE Due(k - 1) + Min(Pow(k - 1), Cap)      \* offset of the (k+1)-th query
Declarative == \A k \in 1..Len(asked) : asked[k] = start + Due(k - 1)
GapsDouble == \A k \in 2..(Len(asked) - 1) : LET g1 == asked[k] - asked[k-1]  g2 == asked[k+1] - asked[k] IN
                 g2 = Min(2 * g1, Cap) \/ (g1 = 0)
NeverFaster == \A k \in 2..Len(asked) : asked[k] - asked[k-1] >= 1
=============================================================================
