-------------------------------- MODULE Life --------------------------------
(***************************************************************************)
(* The lifetime arithmetic of one cached record (DnsRecord, src/dns_parser.rs) *)
(* - the part of Cache.tla that is about numbers only.  Kept apart so that     *)
(* the same definitions are used by the model checker (Cache.tla, bounded      *)
(* TTLs: TLC's integers are 32-bit) and by the proof system (LifeProofs.tla:   *)
(* every TTL, every instant).                                                  *)
(* A record e has ttl (seconds) and created, expires, refresh (milliseconds).  *)
(***************************************************************************)
EXTENDS Naturals
(* get_expiration_time: created + ttl * 1000 * percent / 100                  *)
Pct(cr, ttl, p) == cr + ttl * p * 10
(* refresh_maybe's guard: not expired, refresh time reached                   *)
Due(e, t) == t < e.expires /\ t >= e.refresh
(* refresh_maybe's step: 80 -> 85 -> 90 -> 95 -> refresh_no_more              *)
NextMark(e) == IF e.refresh = Pct(e.created, e.ttl, 80) THEN Pct(e.created, e.ttl, 85)
               ELSE IF e.refresh = Pct(e.created, e.ttl, 85) THEN Pct(e.created, e.ttl, 90)
               ELSE IF e.refresh = Pct(e.created, e.ttl, 90) THEN Pct(e.created, e.ttl, 95)
               ELSE Pct(e.created, e.ttl, 100)
(* ---- the operations on the lifetime fields, shared by Cache.tla and LifeProofs.tla ---- *)
(* a record stored for the first time (DnsRecord::new)                         *)
Born(ttl, t) == [ttl |-> ttl, created |-> t, expires |-> Pct(t, ttl, 100), refresh |-> Pct(t, ttl, 80)]
(* a copy that restarts a stored record (reset_ttl; TTL 1: it just expires)    *)
Restart(e, ttl, t) == [e EXCEPT !.ttl = ttl, !.created = t, !.expires = Pct(t, ttl, 100),
                                !.refresh = IF ttl > 1 THEN Pct(t, ttl, 80) ELSE Pct(t, ttl, 100)]
(* the cache-flush rule: older than a second, more than a second to live       *)
FlushHits(e, t) == t > e.created + 1000 /\ e.expires > t + 1000
Flushed(e, t) == [e EXCEPT !.expires = t + 1000]
(* a verify request (set_expire_sooner)                                        *)
CutHits(e, dl) == dl < e.expires
CutTo(e, dl) == [e EXCEPT !.expires = dl]
(* refresh_maybe, when due                                                     *)
Bumped(e) == [e EXCEPT !.refresh = NextMark(e)]
=============================================================================
