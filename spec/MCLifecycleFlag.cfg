SPECIFICATION Spec
CONSTANTS Cap = 2
          MaxCalls = 4
          Drain = TRUE
          Flag = TRUE
          Window = TRUE
INVARIANTS InvCleanupOnce InvCleanBeforeShutdown InvOneShutdownReply InvFinal InvSubProtocol InvNoDangling InvAnsweredWhenTaken InvBigStep
PROPERTIES ExitServed
CHECK_DEADLOCK FALSE
