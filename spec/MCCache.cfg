SPECIFICATION Spec
CONSTANTS
  MaxArr = 3
  MaxTime = 5000
  EagerKeys = TRUE
  SplitByFlush = TRUE
  KeepSubs = TRUE
  FlushVaries = TRUE
  Kinds = {"P", "PS", "S1", "S2", "A1", "A2"}
INVARIANTS NeverLonger NotEarlier Present Reported WellFormed KeysNeeded SubsNeeded
CHECK_DEADLOCK FALSE
