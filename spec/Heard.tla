-------------------------------- MODULE Heard --------------------------------
(***************************************************************************)
(* Ground truth of "what the network last advertised to this daemon"       *)
(* (C03 C04 C05 C11 C17 C20): a table of the records delivered in response *)
(* packets, keyed by record identity, with the lifetime the statements of  *)
(* the properties give them:                                                *)
(*   - a record received at T with TTL t is usable until T + t (TTL 0: a    *)
(*     goodbye, it withdraws the record one second later);                  *)
(*   - a later copy of the same record restarts its life from the new TTL;  *)
(*   - a record arriving with the cache-flush bit makes the OTHER records of *)
(*     the same name, type (addresses: same receiving interface) that are   *)
(*     more than one second old expire one second later;                    *)
(*   - a verify request shortens SRV / address lifetimes to its deadline     *)
(*     until a fresh copy arrives.                                           *)
(* Identity: <<type, lower-cased owner, canonical rdata, ifx>> where ifx is  *)
(* the receiving interface for A/AAAA and 0 otherwise.                       *)
(* The table is a function id -> entry; pure operators only.                 *)
(***************************************************************************)
EXTENDS Naturals, Sequences, FiniteSets

IsAddrTy(ty) == ty \in {"A", "AAAA"}
IdOf(r, idx) == <<r.ty, r.n.k, r.rk, IF IsAddrTy(r.ty) THEN idx ELSE 0>>
LifeMs(ttl) == 1000 * (IF ttl = 0 THEN 1 ELSE ttl)

Has(r, f) == f \in DOMAIN r
Entry(r, idx, t, forus) ==
  [ty |-> r.ty, nk |-> r.n.k, u |-> r.n.u, s |-> r.n.sk, rk |-> r.rk,
   ts |-> IF Has(r, "t") THEN r.t.sk ELSE "",
   us |-> {r.n.u},               \* owner spellings (letter case) under which the record is held
   everUs |-> {r.n.u},           \* every spelling it ever arrived under
   everFu |-> forus,             \* some arrival of it was in a packet for us (not undone by stop_browse)
   ifx |-> IF IsAddrTy(r.ty) THEN idx ELSE 0,
   srcif |-> idx,
   tk |-> IF Has(r, "t") THEN r.t.k ELSE "", tu |-> IF Has(r, "t") THEN r.t.u ELSE "",
   port |-> IF Has(r, "po") THEN r.po ELSE 0,
   txtd |-> IF Has(r, "txtd") THEN r.txtd ELSE <<>>,
   ip |-> IF Has(r, "ip") THEN r.ip ELSE "",
   at |-> t, ttl |-> r.ttl, exp |-> t + LifeMs(r.ttl), fl |-> r.fl, forus |-> forus,
   vexp |-> t + LifeMs(r.ttl),   \* earliest instant from which the record MAY be treated as gone (verify)
   vdl |-> 0,                    \* deadline of the verify request that shortened this copy (0: none)
   marks |-> {},                 \* refresh marks (80, 85, 90, 95) since which the record was asked for (what is owed: C11, C17)
   umarks |-> {}]                \* refresh marks used up as the explanation of a question (what is allowed: C19)

SameRRSet(e, r, idx) == e.ty = r.ty /\ e.nk = r.n.k /\ (IsAddrTy(r.ty) => e.ifx = idx)

(* one record r received on interface idx at time t                         *)
Arrive(tab, r, idx, t, forus) ==
  LET id == IdOf(r, idx)
      flushed == IF r.fl
                 THEN [x \in DOMAIN tab |->
                        IF x # id /\ SameRRSet(tab[x], r, idx) /\ t > tab[x].at + 1000 /\ tab[x].exp > t + 1000
                        THEN [tab[x] EXCEPT !.exp = t + 1000, !.vexp = IF @ < t + 1000 THEN @ ELSE t + 1000] ELSE tab[x]]
                 ELSE tab
      (* "for us" is remembered if any arrival of the record was for us      *)
      fu == forus \/ (id \in DOMAIN tab /\ tab[id].forus /\ tab[id].exp > t /\ tab[id].vexp > t)
      old == IF id \in DOMAIN tab /\ tab[id].exp > t THEN tab[id].us ELSE {}
      ever == IF id \in DOMAIN tab THEN tab[id].everUs ELSE {}
      efu == forus \/ (id \in DOMAIN tab /\ tab[id].everFu)
  IN [x \in DOMAIN flushed \cup {id} |-> IF x = id THEN [Entry(r, idx, t, fu) EXCEPT !.us = @ \cup old, !.everUs = @ \cup ever, !.everFu = efu] ELSE flushed[x]]

RECURSIVE ArriveAll(_, _, _, _, _)
ArriveAll(tab, rs, idx, t, forus) ==
  IF rs = <<>> THEN tab ELSE ArriveAll(Arrive(tab, Head(rs), idx, t, forus), Tail(rs), idx, t, forus)

Usable(tab, id, t) == id \in DOMAIN tab /\ tab[id].ttl # 0 /\ t < tab[id].exp
UsableIds(tab, t) == {id \in DOMAIN tab : Usable(tab, id, t)}

(* ------------------------- views used by the monitors ------------------- *)
PtrIds(tab, tyk, instk, t)  == {id \in UsableIds(tab, t) : id[1] = "PTR" /\ id[2] = tyk /\ tab[id].tk = instk}
SrvIds(tab, instk, t)       == {id \in UsableIds(tab, t) : id[1] = "SRV" /\ id[2] = instk}
TxtIds(tab, instk, t)       == {id \in UsableIds(tab, t) : id[1] = "TXT" /\ id[2] = instk}
AddrIds(tab, hostk, t)      == {id \in UsableIds(tab, t) : IsAddrTy(id[1]) /\ id[2] = hostk}

(* the instance is fully described by live records (from `t` on)            *)
HostsOf(tab, instk, t) == {tab[id].tk : id \in SrvIds(tab, instk, t)}
InstanceLive(tab, tyk, instk, t) ==
  /\ PtrIds(tab, tyk, instk, t) # {}
  /\ \E h \in HostsOf(tab, instk, t) : AddrIds(tab, h, t) # {}

(* verify: the SRV of the instance expires at the deadline unless refreshed;  *)
(* the addresses of its host(s) MAY be treated the same way (vexp), they need *)
(* not be: the statement only promises the removal of the instance           *)
Shorten(tab, instk, deadline, t) ==
  LET srv(id) == id[1] = "SRV" /\ id[2] = instk
      hosts == {tab[id].tk : id \in {x \in DOMAIN tab : srv(x)}}
      adr(id) == IsAddrTy(id[1]) /\ id[2] \in hosts
  IN [id \in DOMAIN tab |->
        IF srv(id) /\ tab[id].exp > deadline THEN [tab[id] EXCEPT !.exp = deadline, !.vexp = IF @ < deadline THEN @ ELSE deadline, !.vdl = deadline]
        ELSE IF adr(id) /\ tab[id].vexp > deadline THEN [tab[id] EXCEPT !.vexp = deadline, !.vdl = deadline]
        ELSE tab[id]]

(* stop_browse: the PTRs of the type are forgotten (a later browse of the    *)
(* type replays nothing until they are heard again).  The SRV/TXT of their   *)
(* instances and the addresses of their hosts should be forgotten as well;   *)
(* the monitor does not insist on it (they may linger until their TTL), but  *)
(* nothing is owed on their account any more.                                *)
Forget(tab, tyk) ==
  LET ptrs  == {id \in DOMAIN tab : id[1] = "PTR" /\ id[2] = tyk}
      insts == {tab[id].tk : id \in ptrs}
      st    == {id \in DOMAIN tab : id[1] \in {"SRV", "TXT"} /\ id[2] \in insts}
      hosts == {tab[id].tk : id \in {x \in st : x[1] = "SRV"}}
      addrs == {id \in DOMAIN tab : IsAddrTy(id[1]) /\ id[2] \in hosts}
  IN [id \in DOMAIN tab \ ptrs |-> IF id \in st \cup addrs THEN [tab[id] EXCEPT !.forus = FALSE] ELSE tab[id]]
=============================================================================
