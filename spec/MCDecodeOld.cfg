SPECIFICATION Spec
CONSTANTS
  PtrRule = "start"
  CharStrGuard = FALSE
  Alphabet = {0, 1, 2, 3, 64, 192}
  MaxLen = 5
INVARIANTS TypeOK Bounded StepBound InsideData
CHECK_DEADLOCK FALSE
