------------------------------ MODULE TraceTxt ------------------------------
(***************************************************************************)
(* C16 conformance, implementation -> specification (component level).     *)
(*  [e |-> "txt", via, ps, acc, wire, dec, get]  one ServiceInfo::new call  *)
(*     through one supported input type, with the TXT RDATA it generates,   *)
(*     what a browser decodes from it and case-variant lookups              *)
(*  [e |-> "txtdec", b, out, dec, uniq]  arbitrary bytes into the decoder   *)
(* Clauses: C16.accept (accepted iff representable), C16.chunk (every        *)
(* encoded string <= 255), C16.wire (RDATA = EncodeTxt of what the input     *)
(* type keeps), C16.roundtrip (browser side = first-key-wins of the input,   *)
(* same case, bytes, order, none vs empty), C16.lookup (case-insensitive),   *)
(* C16.total (decoding arbitrary bytes never fails, equals DecodeTxt).       *)
(***************************************************************************)
EXTENDS Txt, DecodeMechUtf8, TLC, TLCExt, Json, IOUtils

Rec == ndJsonDeserialize(IOEnv.TRACE)
VARIABLES l, viol
vars == <<l, viol>>
Ev == Rec[l]
Chk(tag, cond) == IF cond THEN {} ELSE {<<tag, l, Ev.id>>}

KeyOk(k) == Utf8Ok(k)
AsSet(s) == {s[i] : i \in 1..Len(s)}

ChunksOk(w) == LET d == DecodeR(w, 0) IN Len(EncodeAll(d)) = Len(w) \/ w = <<0>>

TxtNew ==
  /\ Ev.e = "txt"
  /\ \E kept \in {IF Ev.via = "slice" THEN Unique(Ev.ps) ELSE Ev.ps} :
     viol' = viol
       \* a slice drops later duplicates of a key before anything is validated:
       \* only what is kept has to be representable
       \cup Chk("C16.accept", Ev.acc = Accept(kept))
       \cup (IF Ev.acc /\ Accept(kept) THEN
               Chk("C16.chunk", ChunksOk(Ev.wire) /\ \A i \in 1..Len(kept) : PropLen(kept[i]) <= Limit)
               \cup Chk("C16.wire", IF Ev.via = "hashmap"
                                    THEN AsSet(DecodeR(Ev.wire, 0)) = AsSet(kept) /\ Len(Ev.wire) = Len(EncodeTxt(kept))
                                    ELSE Ev.wire = EncodeTxt(kept))
               \cup Chk("C16.roundtrip", IF Ev.via = "hashmap"
                                         THEN AsSet(Ev.dec) = AsSet(Ev.ps)
                                         ELSE Ev.dec = Unique(Ev.ps))
               \cup Chk("C16.lookup", \A i \in 1..Len(Ev.get) :
                                         LET g == Ev.get[i]  r == Lookup(Ev.dec, g.q) IN
                                         /\ g.found = r.found
                                         /\ (g.found => [k |-> g.k, hv |-> g.hv, v |-> g.v] = r.p))
             ELSE {})

TxtDec ==
  /\ Ev.e = "txtdec"
  /\ viol' = viol
       \cup Chk("C16.total", Ev.out = "ok")
       \cup (IF Ev.out = "ok" THEN
               Chk("C16.decode", Ev.dec = DecodeTxt(Ev.b, KeyOk))
               \cup Chk("C16.first", Ev.uniq = Unique(DecodeTxt(Ev.b, KeyOk)))
             ELSE {})

Init == l = 1 /\ viol = {}
Next == l <= Len(Rec) /\ l' = l + 1 /\ (TxtNew \/ TxtDec)
Spec == Init /\ [][Next]_vars
Track == TLCSet(1, viol)
Accepted ==
  LET consumed == TLCGet("stats").diameter - 1 IN
  /\ PrintT(<<"RESULT", ToJson([consumed |-> consumed, total |-> Len(Rec), viol |-> TLCGet(1)])>>)
  /\ consumed = Len(Rec)
  /\ TLCGet(1) = {}
=============================================================================
