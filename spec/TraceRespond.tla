---------------------------- MODULE TraceRespond ----------------------------
(***************************************************************************)
(* Trace monitor for the responder-side properties C06 C07 C09 C10 (and    *)
(* the per-interface clauses of C18) over a single-daemon trace recorded   *)
(* by the harness (sim.rs).  Environment events (reset, spawn, ifs, call,  *)
(* deliver, adv) update the ground truth; every `iter` event (one loop     *)
(* iteration of the real daemon: packets sent, events, replies) is judged  *)
(* against Responder.tla.  Non-blocking: failed clauses are collected in    *)
(* `viol` as <<tag, line, scenario>> and the whole trace is consumed.       *)
(***************************************************************************)
EXTENDS Responder, TLC, TLCExt, Json, IOUtils

Rec == ndJsonDeserialize(IOEnv.TRACE)

VARIABLES l,        \* cursor
          scen,     \* scenario id of the current reset
          myhost,   \* 1-based host index of the daemon
          ifs,      \* its interface table
          reg,      \* fnk -> registration (latest register wins)
          ann,      \* <<fnk, idx>> -> [st : "yes"|"limbo", first : time]   (absent = not announced)
          probes,   \* <<fnk, idx>> -> sequence of probe times
          noisy,    \* names (fnk/hostk) for which conflicting traffic was delivered: liveness bounds off
          owed,     \* pending obligations [kind, fnk, idx, v4, due]
          inbox,    \* deliver events since the last iteration
          cmds,     \* call events since the last iteration
          ipint,    \* interface-check interval in force (ms, 0 = disabled)
          cand,     \* original fnk -> the names conflict resolution may move to (x, x (2), x (3) .. / h, h-2, h-3 ..)
          lost,     \* name keys for which a conflicting response arrived before they were announced: must not be taken (C08)
          ncseen,   \* new names reported by NameChange events
          compet,   \* name key -> time of the last competing probe delivered while we were probing it
          defer,    \* <<name key, interface>> -> earliest time of the next probe after a tiebreak the driver knows to be lost (C08.backoff)
          viol, hits,
          streak    \* consecutive idle iterations whose requested wake-up is at most 1 ms ahead (C12.nospin)
vars == <<streak, l, scen, myhost, ifs, reg, ann, probes, noisy, owed, inbox, cmds, ipint, cand, lost, ncseen, compet, defer, viol, hits>>

Ev == Rec[l]
T  == Ev.t
V(tag, cond, extra) == IF cond THEN {} ELSE {<<tag, l, scen, extra>>}

(* at most 24 recorded failures per clause and kind: the set is part of the state, its size must stay bounded *)
KindOfV(v) == IF v[4] # <<>> THEN v[4][1] ELSE ""
Cap(old, new) == old \cup {v \in new : Cardinality({w \in old : w[1] = v[1] /\ KindOfV(w) = KindOfV(v)}) < 24}

Dom(f) == DOMAIN f
Put(f, k, v) == [x \in Dom(f) \cup {k} |-> IF x = k THEN v ELSE f[x]]
Del(f, ks) == [x \in Dom(f) \ ks |-> f[x]]
SeqOf(f, k) == IF k \in Dom(f) THEN f[k] ELSE <<>>
Last(s) == s[Len(s)]

(* --------------------------- registrations ----------------------------- *)
(* fnk: lower-cased UNESCAPED spelling (as names appear in packets); fn: RFC 6763-escaped spelling *)
MkReg(a) == [fn |-> a.fnl.s, fnk |-> a.fnl.k, ty |-> a.ty, tyk |-> a.tyk, sub |-> a.sub, subk |-> a.subk,
             host |-> a.host, hostk |-> a.hostk, port |-> a.port, addrs |-> a.addrs, auto |-> a.auto,
             probe |-> a.probe, txtx |-> a.txtx, hostttl |-> a.hostttl, otherttl |-> a.otherttl,
             srvrk |-> a.srvrk, srvpre |-> a.srvpre, orig |-> a.fnk, at |-> T,
             fnl |-> a.fnk, dotted |-> a.fnl.s # a.fnl.u]      \* a dot or backslash inside a label of the instance name
SameData(g, h) == [g EXCEPT !.at = 0] = [h EXCEPT !.at = 0]

IfIdxs == {x.idx : x \in {y \in Range(ifs) : y.up}}

(* ------------------------------ packets -------------------------------- *)
Sent == Ev.sent
Pk(i) == Sent[i]
OkPk == {i \in 1..Len(Sent) : Pk(i).ok}
AllTtl0(rs) == \A j \in 1..Len(rs) : rs[j].ttl = 0
HasTy(rs, ty) == \E j \in 1..Len(rs) : rs[j].ty = ty
Resp  == {i \in OkPk : Pk(i).m.qr}
Bye   == {i \in Resp : Len(Pk(i).m.an) > 0 /\ AllTtl0(Pk(i).m.an)}
(* an announcement: unsolicited multicast response carrying, as answers, a PTR and the SRV it points to *)
Annc  == {i \in Resp \ Bye : /\ Pk(i).mc /\ Len(Pk(i).m.ar) = 0
                              /\ \E a, b \in 1..Len(Pk(i).m.an) : /\ Pk(i).m.an[a].ty = "PTR" /\ Pk(i).m.an[b].ty = "SRV"
                                                                  /\ Pk(i).m.an[a].t.k = Pk(i).m.an[b].n.k}
QResp == Resp \ (Bye \cup Annc)
Probe == {i \in OkPk : ~Pk(i).m.qr /\ Len(Pk(i).m.ns) > 0}

SrvKeyOf(rs) == LET s == {j \in 1..Len(rs) : rs[j].ty = "SRV"} IN
                IF s = {} THEN "" ELSE rs[CHOOSE j \in s : TRUE].n.k

ThreeProbes(ps, t) ==
  \E a, b, c \in 1..Len(ps) : /\ a < b /\ b < c
                              /\ ps[b] - ps[a] >= 250 /\ ps[c] - ps[b] >= 250 /\ t - ps[c] >= 250

(* ----------------- commands of this iteration, in order ----------------- *)
(* state threaded through the fold: [reg, ann, probes, owed, v, byes]       *)
(* byes: the goodbyes this iteration must contain: {[fnk, idx, v4, set]}    *)
ReplyOf(cid) == LET r == {j \in 1..Len(Ev.replies) : Ev.replies[j].call = cid} IN
                IF r = {} THEN "none" ELSE Ev.replies[CHOOSE j \in r : TRUE].v

AnnouncedIdxs(a, fnk) == {k[2] : k \in {x \in Dom(a) : x[1] = fnk}}

GoodbyesFor(g, a) ==
  UNION {{[fnk |-> g.fnk, idx |-> idx, v4 |-> v4, set |-> {Ident(r) : r \in AnnounceSet(g, ifs, idx, v4)}] :
            v4 \in {b \in BOOLEAN : LinkFam(g, ifs, idx, b) # {}}}
         : idx \in AnnouncedIdxs(a, g.fnk)}

ApplyCmd(s, c) ==
  CASE c.fn = "register" /\ c.res = "ok" ->
         LET g == MkReg(c.args)
             same == g.fnk \in Dom(s.reg) /\ SameData(s.reg[g.fnk], g)
             renamedKeys == {k \in Dom(s.reg) : s.reg[k].orig = g.orig /\ k # g.fnk}
             usable == {idx \in IfIdxs : Link(g, ifs, idx) # {}}
         IN [s EXCEPT !.reg = Put(Del(s.reg, renamedKeys), g.fnk, g),
                      \* a re-registration with new data: answers optional until re-announced
                      !.ann = IF same THEN s.ann
                              ELSE [k \in Dom(s.ann) |-> IF k[1] = g.fnk THEN [s.ann[k] EXCEPT !.st = "limbo"] ELSE s.ann[k]],
                      !.owed = {o \in s.owed : ~(o.fnk = g.fnk /\ o.kind \in {"announce", "ann2"})}
                               \cup {[kind |-> "announce", fnk |-> g.fnk, idx |-> idx, v4 |-> TRUE,
                                      due |-> T + (IF g.probe THEN 1000 ELSE 0)] : idx \in usable}]
    [] c.fn = "unregister" /\ c.res = "ok" ->
         LET cur == {x \in Dom(s.reg) : s.reg[x].orig = c.args.fnk}
             k == IF cur = {} THEN c.args.fnk ELSE CHOOSE x \in cur : TRUE      \* the name the service currently goes by
             known == cur # {}
             rep == ReplyOf(c.id)
         IN [s EXCEPT !.v = s.v \cup V("C09.status", rep = (IF known THEN "OK" ELSE "NotFound"), <<k, rep>>),
                      !.byes = s.byes \cup (IF known THEN GoodbyesFor(s.reg[k], s.ann) ELSE {}),
                      !.reg = Del(s.reg, {k}),
                      !.ann = Del(s.ann, {x \in Dom(s.ann) : x[1] = k}),
                      !.owed = {o \in s.owed : o.fnk # k}
                               \cup (IF known THEN {[kind |-> "bye2", fnk |-> b.fnk, idx |-> b.idx, v4 |-> b.v4, due |-> T + 120]
                                                     : b \in GoodbyesFor(s.reg[k], s.ann)} ELSE {}),
                      !.unreg = s.unreg \cup (IF known THEN {k} ELSE {})]
    [] c.fn = "shutdown" /\ c.res = "ok" ->
         [s EXCEPT !.byes = s.byes \cup UNION {GoodbyesFor(s.reg[k], s.ann) : k \in Dom(s.reg)},
                   !.unreg = s.unreg \cup Dom(s.reg),
                   !.reg = <<>>, !.ann = <<>>, !.probes = <<>>, !.owed = {}, !.down = TRUE]
    [] c.fn = "set_ip_check_interval" /\ c.res = "ok" ->
         [s EXCEPT !.ipint = IF c.args.secs = 0 THEN 0
                             ELSE IF c.args.secs > 2000000 THEN 2000000000
                             ELSE IF s.ipint > 1000 * c.args.secs THEN s.ipint ELSE 1000 * c.args.secs]
    [] OTHER -> s

RECURSIVE Fold(_, _)
Fold(s, cs) == IF cs = <<>> THEN s ELSE Fold(ApplyCmd(s, Head(cs)), Tail(cs))

(* ----------------------------- queries (C06/C10) ------------------------ *)
Queries == {j \in 1..Len(inbox) : inbox[j].ok /\ ~inbox[j].m.qr}
NoisyIn == UNION {{inbox[j].m.an[i].n.k : i \in 1..Len(inbox[j].m.an)}
                  \cup {inbox[j].m.ns[i].n.k : i \in 1..Len(inbox[j].m.ns)} : j \in {x \in 1..Len(inbox) : inbox[x].ok}}

Live(idx) == {reg[k] : k \in {x \in Dom(reg) : <<x, idx>> \in Dom(ann) /\ ann[<<x, idx>>].st = "yes"}}
Limbo(idx) == {reg[k] : k \in {x \in Dom(reg) : <<x, idx>> \in Dom(ann)}}

QuestionsOf(m) == {[k |-> m.q[i].n.k, u |-> m.q[i].n.u, ty |-> m.q[i].ty] : i \in 1..Len(m.q)}

CheckQuery(Q) ==
  LET idx  == Q["if"]
      ka   == KnownOf(Q.m.an)
      legacy == Q.sport # 5353
      qs   == QuestionsOf(Q.m)
      af(q, svcs) == AnswerFor(q, svcs, ifs, idx, Q.v4)
      mustAll == UNION {af(q, Live(idx)).must : q \in qs}
      must == {p.r : p \in {x \in mustAll : ~MayOmit(x, ka)}}
      may  == {p.r : p \in {x \in UNION {af(q, Limbo(idx)).may : q \in qs} : ~MustOmit(x, ka)}}
      fix(rs) == IF legacy THEN NoFlush(rs) ELSE rs
      mine == {i \in QResp : Pk(i)["if"] = idx \/ ~Pk(i).mc}
      actAns == UNION {NormSet(Pk(i).m.an) : i \in mine}
      actAdd == UNION {NormSet(Pk(i).m.ar) : i \in mine}
      ptrAnswered == {g \in UNION {af(q, Limbo(idx)).ptr : q \in qs} : fix({RecPTR(g)}) \subseteq actAns}
      srvAnswered == {g \in Limbo(idx) : fix({RecSRV(g)}) \subseteq actAns}
      reqAdd  == UNION {PtrAdditionals(g, ifs, idx, Q.v4) : g \in ptrAnswered \cap Live(idx)}
      \* additionals that would have come with answers the known-answer list suppresses
      suppAdd == UNION {PtrAdditionals(g, ifs, idx, Q.v4) : g \in UNION {af(q, Limbo(idx)).ptr : q \in qs} \ ptrAnswered}
                 \cup UNION {SrvAdditionals(g, ifs, idx, Q.v4) : g \in Limbo(idx) \ srvAnswered}
      okAdd   == UNION {PtrAdditionals(g, ifs, idx, Q.v4) : g \in ptrAnswered}
                 \cup UNION {SrvAdditionals(g, ifs, idx, Q.v4) : g \in srvAnswered}
      missingAll == fix(must) \ actAns
      \* an answer left out although the query lists it with less than half its TTL (or with other rdata): C10's business
      listed == {r \in missingAll : \E x \in ka : x.r.k = r.k /\ x.r.ty = r.ty}
      missing == missingAll \ listed
      dottedOnly == missing # {} /\ \A r \in missing : \E g \in Limbo(idx) : g.dotted /\ r.k = g.fnk
      \* C07: a service that requires probing is not answered for on an interface where it has never been announced
      early == {r \in actAns \cup actAdd : \E k \in Dom(reg) :
                   /\ reg[k].probe /\ <<k, idx>> \notin Dom(ann)
                   /\ \/ (r.k = k /\ r.ty \in {"SRV", "TXT"})
                      \/ (r.ty = "PTR" /\ r.rk = reg[k].fn)
                      \/ (r.k = reg[k].hostk /\ r.ty \in {"A", "AAAA"}
                          /\ ~\E k2 \in Dom(reg) : reg[k2].hostk = reg[k].hostk /\ <<k2, idx>> \in Dom(ann))}
  IN V("C10.kept", listed = {}, <<"answer suppressed by a known answer that does not suppress it (TTL below half, or other rdata)", listed>>)
     \cup V("C07.early-answer", early = {}, <<"answered for a name that is still being probed (never announced on this interface)", early>>)
     \cup V("C06.exact-missing", missing = {},
       <<IF dottedOnly THEN "question for an instance name with a dot inside a label is never matched (wire names are compared unescaped with escaped registered names)"
         ELSE "missing", missing>>)
     \* an answer that is sent although the query lists exactly this record as known (the same rdata): C10's business
     \cup V("C10.not-suppressed", {r \in actAns \ fix(may) : \E x \in ka : x.r.k = r.k /\ x.r.ty = r.ty /\ x.r.rk = r.rk} = {},
            <<"answer sent although the query lists it as a known answer with at least half its TTL",
              {r \in actAns \ fix(may) : \E x \in ka : x.r.k = r.k /\ x.r.ty = r.ty /\ x.r.rk = r.rk}>>)
     \cup V("C06.exact-extra", {r \in actAns \ fix(may) : ~\E x \in ka : x.r.k = r.k /\ x.r.ty = r.ty /\ x.r.rk = r.rk} = {},
            <<"extra", {r \in actAns \ fix(may) : ~\E x \in ka : x.r.k = r.k /\ x.r.ty = r.ty /\ x.r.rk = r.rk}>>)
     \cup V("C06.silent", (may = {}) => (mine = {}), <<"response without matching announced service">>)
     \cup V("C06.additionals", fix(reqAdd) \subseteq (actAdd \cup actAns), <<"missing additional", fix(reqAdd) \ (actAdd \cup actAns)>>)
     \cup V("C10.additionals", (actAdd \ fix(okAdd)) \cap fix(suppAdd) = {},
            <<"additional of a suppressed answer", (actAdd \ fix(okAdd)) \cap fix(suppAdd)>>)
     \cup V("C06.additionals-extra", (actAdd \ fix(okAdd)) \subseteq fix(suppAdd), <<"extra additional", (actAdd \ fix(okAdd)) \ fix(suppAdd)>>)
     \cup (IF legacy
           THEN V("C06.legacy", /\ Cardinality(mine) <= 1
                                /\ \A i \in mine : /\ ~Pk(i).mc /\ Pk(i).dst = Q.src /\ Pk(i).port = Q.sport
                                                   /\ Pk(i).m.id = Q.m.id
                                                   /\ [j \in 1..Len(Pk(i).m.q) |-> <<Pk(i).m.q[j].n.k, Pk(i).m.q[j].ty>>]
                                                        = [j \in 1..Len(Q.m.q) |-> <<Q.m.q[j].n.k, Q.m.q[j].ty>>]
                                                   /\ \A r \in actAns \cup actAdd : ~r.fl,
                  <<"legacy unicast">>)
           ELSE V("C06.mcast", \A i \in mine : Pk(i).mc /\ Pk(i)["if"] = idx /\ Pk(i).v4 = Q.v4 /\ Pk(i).m.id = 0,
                  <<"multicast on receiving interface">>))

HitsQuery(Q) ==
  LET idx == Q["if"]
      ka == KnownOf(Q.m.an)
      qs == QuestionsOf(Q.m)
      mustAll == UNION {AnswerFor(q, Live(idx), ifs, idx, Q.v4).must : q \in qs}
  IN (IF mustAll # {} THEN {"C06.answered"} ELSE {"C06.silent-case"})
     \cup (IF \E a \in mustAll : MustOmit(a, ka) THEN {"C10.suppressed"} ELSE {})
     \cup (IF \E a \in mustAll : ka # {} /\ ~MayOmit(a, ka) THEN {"C10.kept"} ELSE {})
     \cup (IF Q.sport # 5353 /\ mustAll # {} THEN {"C06.legacy-case"} ELSE {})

(* ------------------------------- iteration ------------------------------ *)
IdleNow == Len(Ev.sent) = 0 /\ Len(Ev.events) = 0 /\ Len(Ev.replies) = 0 /\ inbox = <<>> /\ cmds = <<>>
                 /\ Ev.wake >= 0 /\ Ev.wake <= T + 1
SpinV == V("C12.nospin", ~(IdleNow /\ streak + 1 = 30),
           <<"30 iterations in a row without work, each asking to be woken within 1 ms (timer at or before the current time)", T>>)

Iter ==
  /\ Ev.e = "iter"
  /\ streak' = IF IdleNow THEN streak + 1 ELSE 0
  /\ \E s \in {Fold([reg |-> reg, ann |-> ann, probes |-> probes, owed |-> owed, v |-> {}, byes |-> {},
                     unreg |-> {}, down |-> FALSE, ipint |-> ipint], cmds)} :
     LET R1 == s.reg
         \* --- C08: names after conflict resolution are read off the wire: an announcement under one of the
         \* candidate names of a registration (x (2), h-2, ..) moves the registration to that name
         srvOf(i) == LET js == {j \in 1..Len(Pk(i).m.an) : Pk(i).m.an[j].ty = "SRV"} IN Pk(i).m.an[CHOOSE j \in js : TRUE]
         IdxIn(sq, x) == {j \in 1..Len(sq) : sq[j] = x}
         moveInst(R, i) ==
            LET k == SrvKeyOf(Pk(i).m.an)
                owners == {o \in Dom(R) : R[o].orig \in Dom(cand) /\ o # k /\ IdxIn(cand[R[o].orig].instk, k) # {} /\ k \notin Dom(R)}
            IN IF owners = {} THEN R
               ELSE LET o == CHOOSE x \in owners : TRUE
                        j == CHOOSE x \in IdxIn(cand[R[o].orig].instk, k) : TRUE
                    IN Put(Del(R, {o}), k, [R[o] EXCEPT !.fn = cand[R[o].orig].inst[j], !.fnk = k])
         moveHost(R, i) ==
            LET k == SrvKeyOf(Pk(i).m.an) IN
            IF k \notin Dom(R) THEN R
            ELSE LET g == R[k]  tk == srvOf(i).t.k IN
                 IF tk # g.hostk /\ g.orig \in Dom(cand) /\ IdxIn(cand[g.orig].hostk, tk) # {}
                 THEN LET j == CHOOSE x \in IdxIn(cand[g.orig].hostk, tk) : TRUE IN
                      Put(R, k, [g EXCEPT !.host = cand[g.orig].host[j], !.hostk = tk, !.srvrk = g.srvpre \o cand[g.orig].host[j]])
                 ELSE R
         RECURSIVE Adopt(_, _)
         Adopt(R, is) == IF is = {} THEN R ELSE LET i == CHOOSE x \in is : TRUE IN Adopt(moveHost(moveInst(R, i), i), is \ {i})
         R2 == Adopt(R1, Annc)
         renamedNow == {k \in Dom(R2) : k \notin Dom(R1) \/ R2[k].hostk # R1[k].hostk}
         ncNow == {Ev.events[j].newk : j \in {x \in 1..Len(Ev.events) : Ev.events[x].k = "NameChange"}}
         vRename == UNION {V("C08.namechange-event", (k \in Dom(R1) \/ k \in ncseen \cup ncNow)
                                                    /\ (k \in Dom(R1) /\ R2[k].hostk # R1[k].hostk => R2[k].hostk \in ncseen \cup ncNow),
                              <<"renamed without a NameChange event", k, R2[k].hostk>>) : k \in renamedNow}
         \* names a conflicting response claimed before we announced them must not be taken
         conflictNames == UNION {
              LET d == inbox[j] IN
              IF d.ok /\ d.m.qr THEN
                 {d.m.an[x].n.k : x \in {y \in 1..Len(d.m.an) :
                      \E k \in Dom(R1) : /\ <<k, d["if"]>> \notin Dom(s.ann)
                                          /\ \/ (d.m.an[y].n.k = k /\ d.m.an[y].ty = "SRV" /\ d.m.an[y].rk # R1[k].srvrk)
                                             \/ (d.m.an[y].n.k = k /\ d.m.an[y].ty = "TXT" /\ d.m.an[y].rk # R1[k].txtx)
                                             \/ (d.m.an[y].n.k = R1[k].hostk /\ d.m.an[y].ty \in {"A", "AAAA"}
                                                 /\ d.m.an[y].rk \notin {a.ip : a \in EffAddrs(R1[k], ifs)}
                                                 /\ ~\E k2 \in Dom(R1) : R1[k2].hostk = R1[k].hostk /\ <<k2, d["if"]>> \in Dom(s.ann))}}
              ELSE {} : j \in 1..Len(inbox)}
         vNoTake == UNION {V("C08.notake", SrvKeyOf(Pk(i).m.an) \notin lost /\ srvOf(i).t.k \notin lost,
                              <<IF SrvKeyOf(Pk(i).m.an) \in lost /\ \E k \in Dom(R1) : R1[k].dotted /\ k = SrvKeyOf(Pk(i).m.an)
                                THEN "conflict for an instance name with a dot inside a label is not detected (wire names are compared unescaped with escaped registered names)"
                                ELSE "announced under a name that a conflicting response had claimed during probing", SrvKeyOf(Pk(i).m.an), srvOf(i).t.k>>) : i \in Annc}
         \* competing probes delivered while we probe the same name
         competNow == UNION {
              LET d == inbox[j] IN
              IF d.ok /\ ~d.m.qr /\ Len(d.m.ns) > 0
              THEN {d.m.q[x].n.k : x \in 1..Len(d.m.q)} \cap (Dom(R1) \cup {R1[k].hostk : k \in Dom(R1)})
              ELSE {} : j \in 1..Len(inbox)}
         \* probes seen in this iteration
         probeNames(i) == {Pk(i).m.q[j].n.k : j \in {x \in 1..Len(Pk(i).m.q) : Pk(i).m.q[x].ty = "ANY"}}
         \* names the registrations go by or may move to after a conflict
         candKeys == UNION {Range(cand[o].instk) : o \in Dom(cand)}
         probed == UNION {{<<k, Pk(i)["if"]>> : k \in probeNames(i) \cap (Dom(R2) \cup candKeys)} : i \in Probe}
         \* after a competing probe, a pause of a second or more means the daemon deferred: the probing starts over
         backoff(x) == /\ SeqOf(s.probes, x) # <<>> /\ x[1] \in Dom(compet)
                       /\ compet[x[1]] >= Last(SeqOf(s.probes, x)) /\ T - Last(SeqOf(s.probes, x)) >= 1000
         P2 == [x \in Dom(s.probes) \cup probed |->
                  IF x \in probed /\ backoff(x) THEN <<T>>
                  ELSE IF x \in probed /\ (SeqOf(s.probes, x) = <<>> \/ Last(SeqOf(s.probes, x)) # T)
                  THEN Append(SeqOf(s.probes, x), T) ELSE SeqOf(s.probes, x)]
         \* C08, the one-second wait: a competing probe that the driver built to win the comparison (origin "tiebreak-lose"), read
         \* while the name is being probed on the receiving interface (a probe sent in an earlier iteration, not yet announced):
         \* the daemon defers, its next probe for the name on that interface is a second or more after it read the datagram
         lostNow == UNION {
              LET d == inbox[j] IN
              IF d.ok /\ "origin" \in DOMAIN d /\ d.origin = "tiebreak-lose"
              THEN {<<nk, d["if"]>> : nk \in {d.m.q[x].n.k : x \in 1..Len(d.m.q)} \cap Dom(R1)}
              ELSE {} : j \in 1..Len(inbox)}
         vBackoff == UNION {V("C08.backoff", x \notin Dom(defer) \/ T >= defer[x],
                              <<IF \E k \in Dom(R2) : k = x[1] /\ R2[k].dotted
                                THEN "competing probe for an instance name with a dot inside a label is not recognised (wire names are compared unescaped with escaped registered names): no wait after a lost tiebreak"
                                ELSE "a probe goes out less than a second after a lost tiebreak", x, defer[x] - 1000, T>>) : x \in probed}
         vProbe == UNION {
              (IF SeqOf(s.probes, x) # <<>> /\ Last(SeqOf(s.probes, x)) < T
               THEN V("C07.spacing", T - Last(SeqOf(s.probes, x)) >= 250, <<x, SeqOf(s.probes, x), T>>) ELSE {})
              : x \in probed}
           \cup UNION {UNION {
                 LET g == R2[k]
                     ns == {Ident(r) : r \in NormSet(Pk(i).m.ns)}
                     \* a name probed for the first time proposes SRV and TXT; a re-registration
                     \* probes only what changed (at least one record of the name)
                     first == <<k, Pk(i)["if"]>> \notin Dom(s.ann) /\ SeqOf(s.probes, <<k, Pk(i)["if"]>>) = <<>>
                     tys == {r.ty : r \in {x \in ns : x.k = k}}
                 IN V("C07.content", /\ ((first /\ k \notin noisy \cup NoisyIn /\ g.orig = g.fnl) => tys = {"SRV", "TXT"})
                                     /\ (k \notin noisy \cup NoisyIn => tys # {}) /\ tys \subseteq {"SRV", "TXT"}
                                     /\ ((g.hostk \in probeNames(i) /\ g.hostk \notin noisy \cup NoisyIn /\ k \notin noisy \cup NoisyIn)
                                           => \E r \in ns : r.k = g.hostk /\ r.ty \in {"A", "AAAA"}),
                      <<k, ns>>)
                 : k \in probeNames(i) \cap Dom(R2)} : i \in Probe}
         \* announcements
         annSvc(i) == SrvKeyOf(Pk(i).m.an)
         vAnn == UNION {
              LET k == annSvc(i)  idx == Pk(i)["if"] IN
              IF k \notin Dom(R2)
              THEN V("C09.quiet", FALSE, <<"announcement for a service that is not registered", k>>)
              ELSE LET g == R2[k]  got == NormSet(Pk(i).m.an) IN
                   (IF g.probe THEN V("C07.three", ThreeProbes(SeqOf(P2, <<k, idx>>), T), <<k, idx, SeqOf(P2, <<k, idx>>), T>>) ELSE {})
                   \cup V("C07.announce", AnnounceSet(g, ifs, idx, Pk(i).v4) \subseteq got,
                          <<"missing", AnnounceSet(g, ifs, idx, Pk(i).v4) \ got>>)
                   \cup V("C07.announce-extra", got \subseteq (AnnounceSet(g, ifs, idx, TRUE) \cup AnnounceSet(g, ifs, idx, FALSE)),
                          <<"foreign record", got \ (AnnounceSet(g, ifs, idx, TRUE) \cup AnnounceSet(g, ifs, idx, FALSE))>>)
                   \cup V("C18.where", Link(g, ifs, idx) # {}, <<"announced on an interface without a service address", k, idx>>)
              : i \in Annc}
         annNow == {<<annSvc(i), Pk(i)["if"]>> : i \in Annc} \cap {<<k, idx>> : k \in Dom(R2), idx \in IfIdxs}
         A2 == [x \in Dom(s.ann) \cup annNow |->
                  IF x \in annNow
                  THEN [st |-> "yes", first |-> IF x \in Dom(s.ann) /\ s.ann[x].st = "yes" THEN s.ann[x].first ELSE T]
                  ELSE s.ann[x]]
         firstAnn == {x \in annNow : ~(x \in Dom(s.ann) /\ s.ann[x].st = "yes")}
         \* goodbyes
         byeSvc(i) == SrvKeyOf(Pk(i).m.an)
         byeHave == {[fnk |-> byeSvc(i), idx |-> Pk(i)["if"], v4 |-> Pk(i).v4] : i \in Bye}
         dueBye2 == {o \in s.owed : o.kind = "bye2" /\ o.due <= T}
         wantBye == {[fnk |-> b.fnk, idx |-> b.idx, v4 |-> b.v4] : b \in s.byes}
                    \cup {[fnk |-> o.fnk, idx |-> o.idx, v4 |-> o.v4] : o \in dueBye2}
         vBye == V("C09.goodbye", wantBye \subseteq byeHave, <<"goodbye missing", wantBye \ byeHave>>)
                 \cup V("C09.exact", byeHave \subseteq wantBye, <<"goodbye not owed", byeHave \ wantBye>>)
                 \cup UNION {UNION {V("C09.names", b.set \subseteq {Ident(r) : r \in NormSet(Pk(i).m.an)},
                                      <<"goodbye content", b.fnk, b.idx, b.set \ {Ident(r) : r \in NormSet(Pk(i).m.an)}>>)
                                    : i \in {j \in Bye : byeSvc(j) = b.fnk /\ Pk(j)["if"] = b.idx /\ Pk(j).v4 = b.v4}}
                             : b \in s.byes}
                 \cup UNION {V("C09.ttl0", Pk(i).mc, <<"goodbye must be multicast">>) : i \in Bye}
         \* second announcement / bounded announcement
         dueAnn == {o \in s.owed : o.kind \in {"ann2", "announce"} /\ o.due <= T /\ o.fnk \notin noisy /\ o.fnk \in Dom(R2)
                                   /\ R2[o.fnk].hostk \notin noisy}
         vOwed == UNION {V(IF o.kind = "ann2" THEN "C07.twice" ELSE "C07.bounded",
                           \E x \in annNow : x[1] = o.fnk /\ x[2] = o.idx, <<o.fnk, o.idx, o.due, T>>) : o \in dueAnn}
         O2 == ({o \in s.owed : ~(o.kind \in {"ann2", "announce", "bye2"} /\ o.due <= T)
                                /\ ~(o.kind = "announce" /\ <<o.fnk, o.idx>> \in annNow)})
               \cup {[kind |-> "ann2", fnk |-> x[1], idx |-> x[2], v4 |-> TRUE, due |-> T + 1000] : x \in firstAnn}
         \* queries
         vQ == IF Cardinality(Queries) = 1
               THEN CheckQuery(inbox[CHOOSE j \in Queries : TRUE])
               ELSE V("C06.unsolicited", (Queries = {}) => (QResp = {}), <<"response packets without a query">>)
         \* after unregister / shutdown: nothing more for those services in this iteration's announcements
         vQuiet == UNION {V("C09.quiet", annSvc(i) \notin s.unreg, <<"announced after unregister", annSvc(i)>>) : i \in Annc}
         \* C12: the requested wake-up covers the pending time-driven work of the responder side
         quiet(k) == k \notin noisy \cup NoisyIn /\ k \in Dom(R2) /\ R2[k].hostk \notin noisy \cup NoisyIn
         probeDue(o) == LET g == R2[o.fnk]
                            since == SelectSeq(SeqOf(P2, <<o.fnk, o.idx>>), LAMBDA x : x >= g.at)
                        IN IF ~g.probe THEN {} ELSE IF since = <<>> THEN {g.at + 250} ELSE {Last(since) + 250}
         c2 == [x \in Dom(compet) \cup competNow |-> IF x \in competNow THEN T ELSE compet[x]]
         due == {d \in {o.due : o \in {x \in O2 : x.kind \in {"ann2", "bye2"} /\ (x.kind = "bye2" \/ quiet(x.fnk))}}
                        \cup UNION {probeDue(o) : o \in {x \in O2 : x.kind = "announce" /\ quiet(x.fnk)}}
                        \* a competing probe for a name we are probing and have not announced: whether the tiebreak was won (next
                        \* probe within 250 ms) or lost (start over one second later), the daemon wakes within a second of it
                        \* (judged at the park of the iteration that read the competing probe: what the daemon made of it - and of the
                        \* renames and fresh starts that may follow - cannot be told from the outside at later parks)
                        \cup {c2[x] + 1000 : x \in {y \in competNow : \E o \in O2 : o.kind = "announce" /\ (o.fnk = y \/ (o.fnk \in Dom(R2) /\ R2[o.fnk].hostk = y))}}
                        \cup (IF s.ipint > 0 THEN {T + s.ipint} ELSE {}) : d > T}
         vWake == IF due = {} \/ ~Ev.alive \/ s.down THEN {}
                  ELSE V("C12.cover", Ev.wake >= 0 /\ Ev.wake <= (CHOOSE d \in due : \A e \in due : d <= e),
                         <<"requested wake-up later than pending time-driven work", Ev.wake, CHOOSE d \in due : \A e \in due : d <= e, T>>)
         \* the loop's own bookkeeping when it parks (hook publish_loop): the wake-up is the earliest timer; every queued re-run
         \* (second announcement, goodbye repeat) has a timer of its own (a re-registration may leave the second announcement of the earlier one queued: one announcement more, allowed)
         vLoop == IF ~("loop" \in DOMAIN Ev) \/ ~Ev.loop \/ ~Ev.alive THEN {}
                  ELSE LET tm == Ev.tm
                           rr == {Ev.rr[j] : j \in 1..Len(Ev.rr)}
                           hasTimer(t) == (\E j \in 1..Len(tm) : tm[j] = t) \/ (Len(tm) = 40 /\ t > tm[40])
                       IN V("C12.loop-wake", Ev.wake = (IF Ev.ntm = 0 THEN 0 - 1 ELSE IF tm[1] > T THEN tm[1] ELSE T + 1),
                            <<"the wake-up asked for is not the earliest timer", Ev.wake, IF Ev.ntm = 0 THEN 0 - 1 ELSE tm[1], T>>)
                          \cup UNION {V("C12.loop-cover", hasTimer(r.t), <<"a queued re-run without a timer of its own", r.k, r.t, T>>) : r \in rr}
                          \* the second announcement and the goodbye repeat that are owed are queued for exactly their due time
                          \cup UNION {V(IF o.kind = "ann2" THEN "C07.loop-ann2" ELSE "C09.loop-bye2",
                                        \E r \in rr : /\ r.t = o.due
                                                      /\ \/ (o.kind = "ann2" /\ r.k = "RegisterResend")
                                                         \/ (o.kind = "bye2" /\ r.k = "UnregisterResend"),
                                        <<IF o.kind = "ann2" THEN "no second announcement is queued for one second after the first"
                                          ELSE "no goodbye repeat is queued for 120 ms after the goodbye", o.fnk, o.due, T>>)
                                      : o \in {x \in O2 : x.kind \in {"ann2", "bye2"} /\ x.due > T}}
     IN /\ viol' = Cap(viol, SpinV \cup s.v \cup vProbe \cup vAnn \cup vBye \cup vOwed \cup vQ \cup vQuiet \cup vWake \cup vRename \cup vNoTake \cup vLoop \cup vBackoff)
        /\ lost' = lost \cup conflictNames
        /\ ncseen' = ncseen \cup ncNow
        /\ compet' = [x \in Dom(compet) \cup competNow |-> IF x \in competNow THEN T ELSE compet[x]]
        /\ LET deferNow == {x \in lostNow : /\ SeqOf(s.probes, x) # <<>> /\ Last(SeqOf(s.probes, x)) < T
                                            /\ x \notin Dom(s.ann) /\ x \notin Dom(A2) /\ x \notin Dom(defer)}
           IN defer' = [x \in Dom(defer) \cup deferNow |-> IF x \in Dom(defer) THEN defer[x] ELSE T + 1000]
        /\ reg' = R2 /\ ann' = A2 /\ probes' = P2 /\ owed' = O2 /\ ipint' = s.ipint
        /\ hits' = hits \cup (IF Probe # {} THEN {"C07.probe"} ELSE {})
                        \cup (IF \E x \in probed : x \in Dom(defer) THEN {"C08.backoff"} ELSE {})
                        \cup (IF "loop" \in DOMAIN Ev /\ Ev.loop /\ Ev.ntm > 0 THEN {"C12.loop-wake"} ELSE {})
                        \cup (IF "loop" \in DOMAIN Ev /\ Ev.loop /\ Len(Ev.rr) > 0 THEN {"C12.loop-cover"} ELSE {})
                        \cup (IF "loop" \in DOMAIN Ev /\ Ev.loop /\ Ev.alive /\ \E o \in O2 : o.kind = "ann2" /\ o.due > T THEN {"C07.loop-ann2"} ELSE {})
                        \cup (IF "loop" \in DOMAIN Ev /\ Ev.loop /\ Ev.alive /\ \E o \in O2 : o.kind = "bye2" /\ o.due > T THEN {"C09.loop-bye2"} ELSE {})
                        \cup (IF Annc # {} THEN {"C07.announce"} ELSE {})
                        \cup (IF Bye # {} THEN {"C09.goodbye"} ELSE {})
                        \cup (IF dueBye2 # {} THEN {"C09.repeat"} ELSE {})
                        \cup (IF dueAnn # {} THEN {"C07.twice"} ELSE {})
                        \cup (IF Cardinality(Queries) = 1 THEN HitsQuery(inbox[CHOOSE j \in Queries : TRUE]) ELSE {})
  /\ noisy' = noisy \cup NoisyIn
  /\ inbox' = <<>> /\ cmds' = <<>>
  /\ UNCHANGED <<scen, myhost, ifs, cand>>

Reset == /\ Ev.e = "reset"
         /\ scen' = Ev.scen.id /\ myhost' = 0 /\ ifs' = <<>> /\ reg' = <<>> /\ ann' = <<>> /\ probes' = <<>>
         /\ noisy' = {} /\ owed' = {} /\ inbox' = <<>> /\ cmds' = <<>> /\ ipint' = 5000
         /\ cand' = <<>> /\ lost' = {} /\ ncseen' = {} /\ compet' = <<>> /\ defer' = <<>>
         /\ UNCHANGED <<viol, hits, streak>>
RECURSIVE LastReset(_)
LastReset(j) == IF Rec[j].e = "reset" THEN j ELSE LastReset(j - 1)
Spawn == /\ Ev.e = "spawn"
         /\ myhost' = Ev.host + 1
         /\ ifs' = Rec[LastReset(l)].hosts[Ev.host + 1]
         /\ UNCHANGED <<scen, reg, ann, probes, noisy, owed, inbox, cmds, ipint, viol, hits, streak, cand, lost, ncseen, compet, defer>>
(* an interface that shows up later: every registration that has an address on its link is owed there, once the   *)
(* daemon has looked at the interface table (one check interval), probed and announced                            *)
IfsEv == /\ Ev.e = "ifs"
         /\ ifs' = IF Ev.host + 1 = myhost THEN Ev.ifs ELSE ifs
         /\ owed' = IF Ev.host + 1 # myhost \/ ipint = 0 THEN owed
                    ELSE owed \cup UNION {{[kind |-> "announce", fnk |-> k, idx |-> x.idx, v4 |-> TRUE,
                                             due |-> T + ipint + 1500 + (IF reg[k].probe THEN 1000 ELSE 0)]
                                              : x \in {y \in Range(Ev.ifs) : y.up /\ Link(reg[k], Ev.ifs, y.idx) # {}
                                                                                /\ Link(reg[k], ifs, y.idx) = {}
                                                                                /\ <<k, y.idx>> \notin Dom(ann)}} : k \in Dom(reg)}
         /\ UNCHANGED <<scen, myhost, reg, ann, probes, noisy, inbox, cmds, ipint, viol, hits, streak, cand, lost, ncseen, compet, defer>>
Call == /\ Ev.e = "call"
        /\ cmds' = Append(cmds, Ev)
        /\ UNCHANGED <<scen, myhost, ifs, reg, ann, probes, noisy, owed, inbox, ipint, viol, hits, streak, cand, lost, ncseen, compet, defer>>
Deliver == /\ Ev.e = "deliver"
           /\ inbox' = Append(inbox, Ev)
           /\ UNCHANGED <<scen, myhost, ifs, reg, ann, probes, noisy, owed, cmds, ipint, viol, hits, streak, cand, lost, ncseen, compet, defer>>
Names == /\ Ev.e = "names"
         /\ cand' = Put(cand, Ev.fnk, [inst |-> Ev.inst, instk |-> Ev.instk, host |-> Ev.host, hostk |-> Ev.hostk])
         /\ UNCHANGED <<streak, scen, myhost, ifs, reg, ann, probes, noisy, owed, inbox, cmds, ipint, lost, ncseen, compet, defer, viol, hits>>
Skip == /\ Ev.e \in {"adv", "dead", "note", "end"}
        /\ viol' = viol
        /\ UNCHANGED <<scen, myhost, ifs, reg, ann, probes, noisy, owed, inbox, cmds, ipint, hits, streak, cand, lost, ncseen, compet, defer>>

Init == /\ l = 1 /\ scen = 0 /\ myhost = 0 /\ ifs = <<>> /\ reg = <<>> /\ ann = <<>> /\ probes = <<>>
        /\ noisy = {} /\ owed = {} /\ inbox = <<>> /\ cmds = <<>> /\ ipint = 5000 /\ cand = <<>> /\ lost = {} /\ ncseen = {} /\ compet = <<>> /\ defer = <<>> /\ viol = {} /\ hits = {} /\ streak = 0
Next == l <= Len(Rec) /\ l' = l + 1 /\ (Reset \/ Spawn \/ IfsEv \/ Call \/ Deliver \/ Names \/ Skip \/ Iter)
Spec == Init /\ [][Next]_vars

Track == TLCSet(1, viol) /\ TLCSet(2, hits)
Accepted ==
  LET consumed == TLCGet("stats").diameter - 1 IN
  /\ PrintT(<<"RESULT", ToJson([consumed |-> consumed, total |-> Len(Rec), viol |-> TLCGet(1), hits |-> TLCGet(2)])>>)
  /\ consumed = Len(Rec)
  /\ TLCGet(1) = {}
=============================================================================
