SPECIFICATION SpecN
CONSTANTS D = {1, 2, 3}
          MaxStart = 6
          MaxTime = 56
          Tiebreak = TRUE
          Backoff = 4
          MaxRen = 4
INVARIANTS EmitOutcome
CHECK_DEADLOCK FALSE
