---------------------------- MODULE MCDecodePtr ----------------------------
(***************************************************************************)
(* Every structure of compression pointers among K two-byte slots: a slot  *)
(* is a pointer to any slot (itself, forward, backward), a one-byte label   *)
(* that runs on into the next slot, or the end of a name.  The slots are    *)
(* the RDATA of a first record of an unknown type (skipped by the decoder); *)
(* a second record's owner name is a pointer to slot s.  On the model: the  *)
(* walk of read_name from that owner name terminates within its step bound  *)
(* and never builds a name longer than the datagram, whatever the           *)
(* structure; every datagram is printed as a case for the real decoder      *)
(* (spec -> implementation).                                                *)
(***************************************************************************)
EXTENDS DecodeMech, Integers, TLC, Json
CONSTANTS K
VARIABLES slots, s
vars == <<slots, s>>
Base == 12 + 3 + 10                          \* header, owner "a.", type class ttl rdlength
\* slot kinds: 0 = end of a name, -1 = a one-byte label, j in 1..K = pointer to slot j
SlotKinds == {0, -1} \cup (1..K)
SlotBytes(k) == IF k = 0 THEN <<0, 0>> ELSE IF k = -1 THEN <<1, 97>> ELSE <<192, Base + 2 * (k - 1)>>
RECURSIVE Flat(_, _)
Flat(f, i) == IF i > K THEN <<>> ELSE SlotBytes(f[i]) \o Flat(f, i + 1)
Bytes == <<0, 0, 132, 0, 0, 0, 0, 2, 0, 0, 0, 0>> \o <<1, 97, 0>> \o <<0, 99, 0, 1, 0, 0, 0, 9>> \o <<0, 2 * K>>
         \o Flat(slots, 1)
         \o <<192, Base + 2 * (s - 1)>> \o <<0, 1, 0, 1, 0, 0, 0, 9, 0, 4, 10, 0, 0, 1>>
OwnerOff == Base + 2 * K
Init == slots \in [1..K -> SlotKinds] /\ s \in 1..K
Next == UNCHANGED vars
Spec == Init /\ [][Next]_vars
W == ReadName(Bytes, OwnerOff)
Terminates == W.pc # "hang"
StepBound  == W.steps <= Len(Bytes) + 2
Bounded    == W.nlen <= Len(Bytes)
Whole      == MechParse(Bytes).pc \in {"ok", "err"}
EmitCase   == PrintT(<<"CASE", ToJson([b |-> Bytes])>>)
=============================================================================
