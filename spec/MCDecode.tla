----------------------------- MODULE MCDecode -----------------------------
(***************************************************************************)
(* Exhaustive check of the read_name walk (DecodeMech!NameStep) for every  *)
(* byte string over Alphabet of length <= MaxLen and every start offset:   *)
(* safe (no read outside the datagram is possible by construction of the   *)
(* guarded transcription), bounded (name never longer than the datagram)   *)
(* and terminating (step bound as invariant, <>done as liveness).          *)
(***************************************************************************)
EXTENDS DecodeMech, TLC
CONSTANTS Alphabet, MaxLen
VARIABLES data, start, st
vars == <<data, start, st>>

Strings == UNION {[1..n -> Alphabet] : n \in 0..MaxLen}

Init == /\ data \in Strings
        /\ start \in 0..Len(data)
        /\ st = NameInit(start)
Next == /\ st.pc = "run"
        /\ st' = NameStep(data, st)
        /\ UNCHANGED <<data, start>>
Spec == Init /\ [][Next]_vars /\ WF_vars(Next)

TypeOK     == st.pc \in {"run", "ok", "err"}
(* C01: a name that is produced is never longer than the datagram; while a walk that will fail is still under *)
(* way (a pointer led back over bytes already read with another label alignment) what has been collected     *)
(* stays below twice the datagram: memory proportional to its size                                            *)
Bounded    == (st.pc = "ok" => st.nlen <= Len(data)) /\ st.nlen <= 2 * Len(data)
StepBound  == st.steps <= Len(data) + 2             \* C01: work proportional to the datagram
InsideData == st.pc = "ok" => st.ret <= Len(data)   \* cursor left inside the datagram
AgreesWithOracle ==                                 \* a successful walk reads what RFC 1035 says is there
   st.pc = "ok" => LET o == RdName(data, start) IN o.ok /\ o.labels = st.labels /\ o.next = st.ret
Terminates == <>(st.pc # "run")
=============================================================================
