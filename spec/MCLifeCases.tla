----------------------------- MODULE MCLifeCases -----------------------------
(***************************************************************************)
(* Schedules for the replay of C14 on a real daemon: every sequence of up   *)
(* to N commands of every kind with at least one Exit in it, cut into loop  *)
(* iterations in every possible way (all positions of Exit among the other  *)
(* commands in the queue and across iterations).  For every schedule the    *)
(* model's outcome is checked here (the properties of Lifecycle.tla hold in *)
(* the state the big steps lead to) and printed with the case; the harness  *)
(* replays the schedule through the gate of the simulation layer and        *)
(* TraceLifecycle.tla runs the same step functions over what the real       *)
(* daemon did.                                                              *)
(***************************************************************************)
EXTENDS Lifecycle, TLC, Json
CONSTANTS N
VARIABLES flat, cuts
Flats == {f \in UNION {[1..n -> Kinds] : n \in 1..N} : \E i \in DOMAIN f : f[i] = "exit"}
Init == flat \in Flats /\ cuts \in SUBSET (1..(Len(flat) - 1))
Next == UNCHANGED <<flat, cuts>>
Spec == Init /\ [][Next]_<<flat, cuts>>

(* calls 1..n are made in order; after call i with i \in cuts (and after the last) the daemon runs one iteration *)
RECURSIVE Run(_, _)
Run(s, i) == IF i > Len(flat) THEN s
             ELSE LET a == CallF(s, flat[i]) IN Run(IF i \in cuts \/ i = Len(flat) THEN Iteration(a) ELSE a, i + 1)
Out == Run(Init0, 1)
Holds == /\ CleanupOnce(Out) /\ CleanBeforeShutdown(Out) /\ OneShutdownReply(Out) /\ SubProtocol(Out) /\ NoDangling(Out)
         /\ Out.dstate = "gone"
EmitCase == PrintT(<<"CASE", ToJson([flat |-> flat, cuts |-> cuts,
                                     res |-> [i \in 1..Len(Out.calls) |-> Out.calls[i].res]])>>)
=============================================================================
