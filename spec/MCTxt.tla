------------------------------- MODULE MCTxt -------------------------------
(***************************************************************************)
(* C16 on the model: for every list of up to MaxProps properties over a    *)
(* pool of keys (empty, case variants, '=' inside, non-ASCII) and values   *)
(* (none, empty, '=', NUL, fillers around the length limit):                *)
(*   RoundTrip   accepted lists survive encode -> decode -> first-key-wins  *)
(*               unchanged (keys with case, value bytes, order, none vs     *)
(*               empty)                                                     *)
(*   ChunkBound  every encoded string is at most Limit bytes               *)
(*   LookupCI    lookups are case-insensitive and find the first occurrence *)
(* and for every byte string over a small alphabet DecodeTxt is total and   *)
(* only returns bytes of its argument.  Cases are printed for replay.       *)
(***************************************************************************)
EXTENDS Txt, TLC, Json
CONSTANTS MaxProps, MaxBytes

Fill(n) == [i \in 1..n |-> 120]
Keys == { <<>>, <<97>>, <<65>>, <<98>>, <<97, EQ>>, <<195, 169>> }
Vals == { [hv |-> FALSE, v |-> <<>>], [hv |-> TRUE, v |-> <<>>], [hv |-> TRUE, v |-> <<120>>],
          [hv |-> TRUE, v |-> <<EQ>>], [hv |-> TRUE, v |-> <<0>>] }
        \cup { [hv |-> TRUE, v |-> Fill(n)] : n \in (Limit - 3)..(Limit) }
Props == { [k |-> k, hv |-> x.hv, v |-> x.v] : k \in Keys, x \in Vals }
Lists == UNION { [1..n -> Props] : n \in 0..MaxProps }
Alphabet == {0, 1, 2, 3, EQ, 97, 255}
Strings == UNION { [1..n -> Alphabet] : n \in 0..MaxBytes }

VARIABLES mode, ps, bs
vars == <<mode, ps, bs>>
Init == \/ mode = "list" /\ ps \in Lists /\ bs = <<>>
        \/ mode = "bytes" /\ bs \in Strings /\ ps = <<>>
Next == UNCHANGED vars
Spec == Init /\ [][Next]_vars

AnyKey(k) == TRUE
RoundTrip  == (mode = "list" /\ Accept(ps)) =>
                 Unique(DecodeTxt(EncodeTxt(ps), AnyKey)) = Unique(ps)
ChunkBound == (mode = "list" /\ Accept(ps)) => \A i \in 1..Len(ps) : PropLen(ps[i]) <= Limit
LookupCI   == (mode = "list" /\ Accept(ps)) =>
                 \A i \in 1..Len(ps) :
                    LET r == Lookup(Unique(ps), LowerB(ps[i].k)) IN
                    r.found /\ LowerB(r.p.k) = LowerB(ps[i].k)
DecodeTotal == mode = "bytes" =>
                 LET d == DecodeTxt(bs, AnyKey) IN
                 /\ Len(EncodeAll(d)) <= Len(bs)            \* nothing invented, nothing read outside
                 /\ \A i \in 1..Len(d) : PropLen(d[i]) >= 1
EmitCase == mode = "list" => PrintT(<<"CASE", ToJson([ps |-> ps])>>)
=============================================================================
