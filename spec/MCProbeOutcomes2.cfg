SPECIFICATION SpecN
CONSTANTS D = {1, 2}
          MaxStart = 10
          MaxTime = 44
          Tiebreak = TRUE
          Backoff = 4
          MaxRen = 3
INVARIANTS EmitOutcome
CHECK_DEADLOCK FALSE
