----------------------------- MODULE MCLifecycle -----------------------------
(***************************************************************************)
(* C14 on the model: every interleaving of up to MaxCalls calls of every    *)
(* kind (queue capacity scaled to Cap) - each call two steps, the try_send   *)
(* and the look at the closing flag - with the atomic steps of the daemon    *)
(* thread.  Which thread makes a call does not matter: "clients" are the     *)
(* interleaving itself (any number of calls may be between their steps).     *)
(* Window = FALSE leaves out the try_sends that fall between the daemon's    *)
(* last look at its queue and the drop of the receiver.                      *)
(***************************************************************************)
EXTENDS Lifecycle, TLC
CONSTANTS MaxCalls, Window
VARIABLE st

Send(k)   == Len(st.calls) < MaxCalls /\ (st.dstate = "drained" => Window) /\ st' = SendF(st, k)
Check(id) == CanCheck(st, id) /\ st' = CheckF(st, id)
Observe   == CanObserve(st) /\ st' = ObserveF(st)
Take      == CanTake(st) /\ st' = TakeF(st)
RaiseFlag == CanFlag(st) /\ st' = FlagF(st)
DrainOne  == CanDrainOne(st) /\ st' = DrainOneF(st)
DrainDone == CanDrainDone(st) /\ st' = DrainDoneF(st)
DropRcv   == CanDropRcv(st) /\ st' = DropRcvF(st)
Answer    == CanAnswer(st) /\ st' = AnswerF(st)
DropState == CanDropState(st) /\ st' = DropStateF(st)
Daemon == Take \/ RaiseFlag \/ DrainOne \/ DrainDone \/ DropRcv \/ Answer \/ DropState
Next == (\E k \in Kinds : Send(k)) \/ (\E id \in 1..MaxCalls : Check(id)) \/ Observe \/ Daemon
Spec == st = Init0 /\ [][Next]_st /\ WF_st(Daemon)

InvCleanupOnce       == CleanupOnce(st)
InvCleanBeforeShutdown == CleanBeforeShutdown(st)
InvOneShutdownReply  == OneShutdownReply(st)
InvFinal             == Final(st)
InvSubProtocol       == SubProtocol(st)
InvNoDangling        == NoDangling(st)
InvAnsweredWhenTaken == AnsweredWhenTaken(st)
(* the big step used by the trace specification is the closure of the small steps *)
RECURSIVE Close(_)
Close(s) == IF CanTake(s) THEN Close(TakeF(s)) ELSE IF CanFlag(s) THEN Close(FlagF(s)) ELSE IF CanDrainOne(s) THEN Close(DrainOneF(s))
            ELSE IF CanDrainDone(s) THEN Close(DrainDoneF(s)) ELSE IF CanDropRcv(s) THEN Close(DropRcvF(s))
            ELSE IF CanAnswer(s) THEN Close(AnswerF(s)) ELSE IF CanDropState(s) THEN Close(DropStateF(s)) ELSE s
InvBigStep == (st.dstate = "run" => Iteration(st) = Close(st)) /\ (st.dstate = "drained" => FromWindow(st) = Close(st))
ExitServed == (\E i \in 1..Len(st.queue) : st.calls[st.queue[i]].kind = "exit") ~> (st.dstate = "gone")
=============================================================================
