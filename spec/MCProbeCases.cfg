SPECIFICATION Spec
CONSTANTS MaxStart = 8
INVARIANTS EmitCase
CHECK_DEADLOCK FALSE
