------------------------------ MODULE TraceCache ------------------------------
(***************************************************************************)
(* Conformance of the real record cache (DnsCache, driven through the       *)
(* verif-hooks CacheFacade by the families `cachecases` - operation          *)
(* sequences enumerated by TLC from MCCacheCases.tla - and `cacherand`) with  *)
(* the mechanism model Cache.tla: every recorded operation is replayed        *)
(* through the model's operator; its results and the complete content of the  *)
(* cache after it (every record with TTL, creation, expiry and refresh time,   *)
(* the keys of the five maps, the size of the subtype table) must be what the  *)
(* model computes.  On the model state - which is then the real state - the    *)
(* statements of C11 / C20 are evaluated after every operation.               *)
(*   C11.cache-result   add_or_update: stored / new / timers asked for        *)
(*   C11.cache-content  the records and their lifetimes after the operation   *)
(*   C11.cache-evict    what eviction reports                                 *)
(*   C11.cache-refresh  which records the refresh look-ups find due, the      *)
(*                      marks they move to (80 / 85 / 90 / 95 %, once each)    *)
(*   C11.cache-verify   the queries a verify request sends                    *)
(*   C11.cache-wellformed  lifetime arithmetic (Cache!WellFormed)             *)
(*   C20.cache-keys     the keys of the maps; C20.cache-keys-needed: none      *)
(*                      without records (Cache!KeysNeeded)                     *)
(*   C20.cache-subs     the subtype table; C20.cache-subs-needed               *)
(*   C18.cache-purge    what the removal of an interface drops and reports     *)
(*   C13.cache-forget   what stop_browse (remove_service_type) drops            *)
(*   C10.cache-known    which cached records a query lists as known answers    *)
(***************************************************************************)
EXTENDS Integers, Sequences, FiniteSets, TLC, TLCExt, Json, IOUtils
CONSTANTS EagerKeys, SplitByFlush, KeepSubs
M == INSTANCE Cache

Rec == ndJsonDeserialize(IOEnv.TRACE)
VARIABLES l, scen, c, viol, hits
vars == <<l, scen, c, viol, hits>>
Ev == Rec[l]
Range(s) == {s[i] : i \in 1..Len(s)}
V(tag, cond, extra) == IF cond THEN {} ELSE {<<tag, l, scen, extra>>}
Key(v) == <<v[1], IF v[4] = <<>> THEN "" ELSE v[4][1]>>
Cap(old, new) == old \cup {v \in new : Cardinality({w \in old : Key(w) = Key(v)}) < 24}

(* ------------------------------ what was observed ------------------------ *)
DId(d) == <<d.m, d.key, d.ty, IF d.m = "addr" THEN d.nl ELSE d.n, d.rk, IF SplitByFlush THEN d.fl ELSE FALSE, d.ifx>>
DVal(d) == [ttl |-> d.ttl, cr |-> d.cr, ex |-> d.ex, rf |-> d.rf, tg |-> d.tg, src |-> d.src, n |-> d.n, fl |-> d.fl]
MVal(e) == [ttl |-> e.ttl, cr |-> e.created, ex |-> e.expires, rf |-> e.refresh, tg |-> e.tg, src |-> e.src, n |-> e.name, fl |-> e.fl]
ContentV(c2) ==
  LET D == Range(Ev.dump)
      ids == {DId(d) : d \in D}
      missing == M!Ids(c2) \ ids
      extra == ids \ M!Ids(c2)
      differ == {d \in D : DId(d) \in M!Ids(c2) /\ DVal(d) # MVal(c2.recs[DId(d)])}
  IN V("C11.cache-content", missing = {}, <<"a record the model holds is not in the cache", Ev.k, missing>>)
     \cup V("C11.cache-content", extra = {}, <<"a record in the cache that the model does not hold", Ev.k, extra>>)
     \cup V("C11.cache-content", Len(Ev.dump) = Cardinality(ids), <<"the cache holds the same record twice", Ev.k, Len(Ev.dump), Cardinality(ids)>>)
     \cup UNION {V("C11.cache-content", FALSE,
                   <<IF DVal(d).ex # MVal(c2.recs[DId(d)]).ex THEN "expiry time of a record differs from the model"
                     ELSE IF DVal(d).rf # MVal(c2.recs[DId(d)]).rf THEN "refresh time of a record differs from the model"
                     ELSE "TTL, creation time or origin of a record differs from the model",
                     Ev.k, DId(d), DVal(d), MVal(c2.recs[DId(d)])>>) : d \in differ}
     \cup V("C20.cache-keys", {<<k[1], k[2]>> : k \in Range(Ev.keys)} = c2.keys,
            <<"the keys of the cache's maps differ from the model", Ev.k, {<<k[1], k[2]>> : k \in Range(Ev.keys)} \ c2.keys, c2.keys \ {<<k[1], k[2]>> : k \in Range(Ev.keys)}>>)
     \cup V("C20.cache-subs", Ev.nsub = Cardinality(DOMAIN c2.subs), <<"the size of the subtype table differs from the model", Ev.k, Ev.nsub, Cardinality(DOMAIN c2.subs)>>)
     \cup V("C11.cache-wellformed", M!WellFormed(c2), <<"lifetime fields of a cached record are inconsistent", Ev.k>>)
     \cup V("C20.cache-keys-needed", M!KeysNeeded(c2),
            <<"a map entry is kept for a name of which no record is held", {kk \in c2.keys : M!Under(c2, kk[1], kk[2]) = {}}>>)
     \cup V("C20.cache-subs-needed", M!SubsNeeded(c2),
            <<"the subtype table names an instance no held subtype PTR points to", Cardinality(DOMAIN c2.subs)>>)

(* ------------------------------ the operations --------------------------- *)
RECURSIVE AddAll(_, _, _, _, _, _)
AddAll(c0, recs, idx, t, fu, acc) ==
  IF recs = <<>> THEN [c |-> c0, res |-> acc]
  ELSE LET r == M!Add(c0, Head(recs), idx, t, fu) IN AddAll(r.c, Tail(recs), idx, t, fu, Append(acc, r))

Recv ==
  /\ Ev.k = "recv"
  /\ \E r \in {AddAll(c, Ev.recs, Ev["if"], Ev.t, Ev.fu, <<>>)} :
       /\ c' = r.c
       /\ viol' = Cap(viol, ContentV(r.c)
            \cup (IF Len(Ev.res) # Len(Ev.recs) THEN V("C11.cache-result", FALSE, <<"the packet was not taken apart into its records", Ev.res>>)
                  ELSE UNION {V("C11.cache-result", /\ Ev.res[i].stored = r.res[i].stored /\ Ev.res[i].new = r.res[i].new
                                                    /\ Ev.res[i].nt = r.res[i].ntimers,
                                <<IF Ev.res[i].stored # r.res[i].stored THEN "a record is stored / not stored against the model (for-us rule)"
                                  ELSE IF Ev.res[i].new # r.res[i].new THEN "a record is reported new / updated against the model"
                                  ELSE "the number of records a cache-flush shortened differs from the model",
                                  Ev.recs[i], Ev.res[i], [stored |-> r.res[i].stored, new |-> r.res[i].new, nt |-> r.res[i].ntimers]>>)
                              : i \in 1..Len(Ev.recs)}))
       /\ hits' = hits \cup {"C11.cache-add"}
            \cup (IF \E i \in 1..Len(r.res) : r.res[i].ntimers > 0 THEN {"C11.cache-flush"} ELSE {})
            \cup (IF \E i \in 1..Len(r.res) : ~r.res[i].stored THEN {"C20.cache-notforus"} ELSE {})
            \cup (IF \E i \in 1..Len(r.res) : r.res[i].stored /\ ~r.res[i].new THEN {"C11.cache-update"} ELSE {})
            \cup (IF \E i \in 1..Len(Ev.recs) : Ev.recs[i].ttl = 0 THEN {"C11.cache-goodbye"} ELSE {})
  /\ UNCHANGED scen

Evict ==
  /\ Ev.k = "evict"
  /\ \E r \in {M!Evict(c, Ev.t)} :
       /\ c' = r.c
       /\ viol' = Cap(viol, ContentV(r.c)
            \cup V("C11.cache-evict", {<<x[1], x[2]>> : x \in Range(Ev.svc)} = r.svc,
                   <<"eviction reports other instances than those whose PTR or last SRV ran out", {<<x[1], x[2]>> : x \in Range(Ev.svc)}, r.svc>>)
            \cup V("C11.cache-evict", Range(Ev.addr) = r.addr,
                   <<"eviction reports other hosts than those of the addresses that ran out", Range(Ev.addr), r.addr>>))
       /\ hits' = hits \cup {"C11.cache-evict"} \cup (IF r.svc # {} THEN {"C11.cache-evict-svc"} ELSE {})
                       \cup (IF r.addr # {} THEN {"C11.cache-evict-addr"} ELSE {})
                       \cup (IF M!Ids(r.c) # M!Ids(c) THEN {"C11.cache-expired"} ELSE {})
  /\ UNCHANGED scen

Verify ==
  /\ Ev.k = "verify"
  /\ \E r \in {M!Verify(c, Ev.inst, Ev.dl)} :
       /\ c' = r.c
       /\ viol' = Cap(viol, ContentV(r.c)
            \cup V("C11.cache-verify", Ev.nq = r.nq, <<"a verify request asks other questions than the model", Ev.q, r.nq>>))
       /\ hits' = hits \cup {"C11.cache-verify"} \cup (IF r.c # c THEN {"C11.cache-verify-cut"} ELSE {})
  /\ UNCHANGED scen

Refresh ==
  /\ Ev.k \in {"rptr", "rsrvtxt", "rhosts", "rhostname"}
  /\ \E r \in {CASE Ev.k = "rptr" -> M!RefreshPtr(c, Ev.ty, Ev.t)
                 [] Ev.k = "rsrvtxt" -> M!RefreshSrvTxt(c, Ev.ty, Ev.t)
                 [] Ev.k = "rhosts" -> M!RefreshHosts(c, Ev.ty, Ev.t)
                 [] OTHER -> M!RefreshHostname(c, Ev.host, Ev.t)} :
       /\ c' = r.c
       /\ viol' = Cap(viol, ContentV(r.c)
            \cup V("C11.cache-refresh", Range(Ev.timers) = r.timers,
                   <<"a refresh look-up moves records to other marks than 80 / 85 / 90 / 95 % in turn", Ev.k, Range(Ev.timers), r.timers>>)
            \cup V("C11.cache-refresh", Range(Ev.due) = r.due,
                   <<"a refresh look-up finds other records due than the model", Ev.k, Range(Ev.due), r.due>>))
       /\ hits' = hits \cup {"C11.cache-refresh"} \cup (IF r.c # c THEN {"C11.cache-refresh-due"} ELSE {})
  /\ UNCHANGED scen

Forget ==
  /\ Ev.k = "forget"
  /\ c' = M!Forget(c, Ev.ty)
  /\ LET c2 == M!Forget(c, Ev.ty)
         ids == {DId(d) : d \in Range(Ev.dump)}
     IN /\ viol' = Cap(viol, ContentV(c2)
              \cup V("C13.cache-forget", ids \ M!Ids(c2) = {},
                     <<"stopping the browse of a type leaves records of it (PTR, the instances' SRV / TXT, their hosts' addresses) in the cache", ids \ M!Ids(c2)>>)
              \cup V("C13.cache-forget", M!Ids(c2) \ ids = {},
                     <<"stopping the browse of a type drops records that do not belong to it", M!Ids(c2) \ ids>>))
        /\ hits' = hits \cup {"C20.cache-forget"}
                        \cup (IF M!Ids(c2) # M!Ids(c) THEN {"C13.cache-forget"} ELSE {})
                        \cup (IF \E x \in M!Ids(c) \ M!Ids(c2) : x[1] = "addr" THEN {"C13.cache-forget-addr"} ELSE {})
  /\ UNCHANGED scen

DropIntf ==
  /\ Ev.k = "dropintf"
  /\ \E r \in {M!DropIntf(c, Ev.idx)} :
       /\ c' = r.c
       /\ viol' = Cap(viol, ContentV(r.c)
            \cup V("C18.cache-purge", {<<x[1], x[2]>> : x \in Range(Ev.removed)} = r.removed,
                   <<"removal of an interface reports other instances as fully removed than those whose PTRs were all learned there",
                     {<<x[1], x[2]>> : x \in Range(Ev.removed)}, r.removed>>)
            \cup V("C18.cache-purge", Range(Ev.modified) = r.modified,
                   <<"removal of an interface reports other instances as modified than those that lost an SRV, TXT or address learned there",
                     Range(Ev.modified), r.modified>>))
       /\ hits' = hits \cup {"C18.cache-dropintf"} \cup (IF r.removed # {} THEN {"C18.cache-removed"} ELSE {})
                       \cup (IF r.modified # {} THEN {"C18.cache-modified"} ELSE {})
  /\ UNCHANGED scen
DropAddrs ==
  /\ Ev.k = "dropaddrs"
  /\ c' = M!DropAddrs(c, Ev.idx, Ev.v4, Ev.v6)
  /\ viol' = Cap(viol, ContentV(M!DropAddrs(c, Ev.idx, Ev.v4, Ev.v6)))
  /\ hits' = hits \cup {"C18.cache-dropaddrs"} \cup (IF M!DropAddrs(c, Ev.idx, Ev.v4, Ev.v6) # c THEN {"C18.cache-dropaddrs-hit"} ELSE {})
  /\ UNCHANGED scen
Known ==
  /\ Ev.k = "known"
  /\ c' = c
  /\ viol' = Cap(viol, V("C10.cache-known", {<<x[1], x[2]>> : x \in Range(Ev.known)} = {<<x[3], x[5]>> : x \in M!Known(c, Ev.m, Ev.key, Ev.t)},
                         <<"the known answers of a question are not the shared records in the first half of their life",
                           {<<x[1], x[2]>> : x \in Range(Ev.known)}, {<<x[3], x[5]>> : x \in M!Known(c, Ev.m, Ev.key, Ev.t)}>>))
  /\ hits' = hits \cup {"C10.cache-known"} \cup (IF M!Known(c, Ev.m, Ev.key, Ev.t) # {} THEN {"C10.cache-known-some"} ELSE {})
                  \cup (IF M!Known(c, Ev.m, Ev.key, Ev.t) # M!Under(c, Ev.m, Ev.key) THEN {"C10.cache-known-omitted"} ELSE {})
  /\ UNCHANGED scen

Reset == /\ Ev.e = "reset" /\ scen' = Ev.scen.id /\ c' = M!Empty /\ UNCHANGED <<viol, hits>>
Op == Ev.e = "cop" /\ (Recv \/ Evict \/ Verify \/ Refresh \/ Forget \/ DropIntf \/ DropAddrs \/ Known)
Init == l = 1 /\ scen = 0 /\ c = M!Empty /\ viol = {} /\ hits = {}
Next == l <= Len(Rec) /\ l' = l + 1 /\ (Reset \/ Op)
Spec == Init /\ [][Next]_vars
Track == TLCSet(1, viol) /\ TLCSet(2, hits)
Accepted ==
  LET consumed == TLCGet("stats").diameter - 1 IN
  /\ PrintT(<<"RESULT", ToJson([consumed |-> consumed, total |-> Len(Rec), viol |-> TLCGet(1), hits |-> TLCGet(2)])>>)
  /\ consumed = Len(Rec)
  /\ TLCGet(1) = {}
=============================================================================
