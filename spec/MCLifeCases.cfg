SPECIFICATION Spec
CONSTANTS N = 4
          Cap = 100
          Drain = TRUE
          Flag = FALSE
INVARIANTS Holds EmitCase
CHECK_DEADLOCK FALSE
