----------------------------- MODULE MCResponder -----------------------------
(***************************************************************************)
(* Model-checking instance for the responder-side operators (Responder.tla)*)
(* used by the trace monitor: over all register / announce / unregister    *)
(* histories of three services on a two-interface host, for every question *)
(* and every known-answer list (TTL on both sides of the half-TTL          *)
(* boundary), the operational answer sets satisfy the declarative reading  *)
(* of C06 / C10 / C18:                                                      *)
(*   OnlyAnnounced  answers are required only for services announced there *)
(*   NoLeak         every address answered lies in a subnet of the         *)
(*                  receiving interface                                     *)
(*   MustSubMay     what is required is permitted                           *)
(*   HalfRule       above half: must omit; below half: must keep            *)
(*   SubnetArith    SameNet agrees with integer arithmetic on the prefix    *)
(***************************************************************************)
EXTENDS Responder, TLC

Ifs == << [name |-> "e0", idx |-> 2, up |-> TRUE, addrs |-> <<[ip |-> "10.0.1.1", o |-> <<10,0,1,1>>, p |-> 24, v4 |-> TRUE]>>],
          [name |-> "e1", idx |-> 3, up |-> TRUE, addrs |-> <<[ip |-> "10.0.2.1", o |-> <<10,0,2,1>>, p |-> 23, v4 |-> TRUE]>>] >>

Mk(fn, ty, sub, host, port, addrs) ==
  [fn |-> fn, fnk |-> fn, ty |-> ty, tyk |-> ty, sub |-> sub, subk |-> sub, host |-> host, hostk |-> host,
   port |-> port, addrs |-> addrs, auto |-> FALSE, probe |-> TRUE, txtx |-> "00", hostttl |-> 120,
   otherttl |-> 4500, srvrk |-> fn]
A(ip, o) == [ip |-> ip, o |-> o, v4 |-> TRUE]
S1 == Mk("a._t.", "_t.", "", "h1.", 80, <<A("10.0.1.5", <<10,0,1,5>>), A("10.0.3.5", <<10,0,3,5>>)>>)
S2 == Mk("b._t.", "_t.", "_s._sub._t.", "h1.", 81, <<A("10.0.1.6", <<10,0,1,6>>)>>)
S3 == Mk("c._u.", "_u.", "", "h3.", 82, <<A("192.0.2.9", <<192,0,2,9>>)>>)      \* on no link
Svcs == {S1, S2, S3}

VARIABLES reg, ann
vars == <<reg, ann>>
Init == reg = {} /\ ann = {}
Register(s) == s \notin reg /\ reg' = reg \cup {s} /\ UNCHANGED ann
Announce(s, i) == /\ s \in reg /\ <<s.fnk, i>> \notin ann /\ Link(s, Ifs, i) # {}
                  /\ ann' = ann \cup {<<s.fnk, i>>} /\ UNCHANGED reg
Unregister(s) == s \in reg /\ reg' = reg \ {s} /\ ann' = {x \in ann : x[1] # s.fnk}
Next == \E s \in Svcs : Register(s) \/ Unregister(s) \/ \E i \in {2, 3} : Announce(s, i)
Spec == Init /\ [][Next]_vars

Live(i) == {s \in reg : <<s.fnk, i>> \in ann}
Questions == {[k |-> n, u |-> n, ty |-> t] : n \in {"_t.", "_s._sub._t.", "a._t.", "h1.", "h3.", MetaName, "zz."},
                                             t \in {"PTR", "SRV", "ANY", "A"}}
TtlCases(full) == {0, full \div 2 - 1, full \div 2, full \div 2 + 1, full}

OnlyAnnounced == \A i \in {2, 3}, q \in Questions :
   \A p \in AnswerFor(q, Live(i), Ifs, i, TRUE).must :
      \E s \in Live(i) : p.r \in AnnounceSet(s, Ifs, i, TRUE)
                         \/ (p.r.k = MetaName /\ p.r.rk = s.ty)
NoLeak == \A i \in {2, 3}, q \in Questions :
   \A p \in AnswerFor(q, Live(i), Ifs, i, TRUE).may :
      p.r.ty = "A" => \E s \in reg : \E a \in Range(s.addrs) : a.ip = p.r.rk /\ OnLink(a, Ifs, i)
MustSubMay == \A i \in {2, 3}, q \in Questions :
   AnswerFor(q, Live(i), Ifs, i, TRUE).must \subseteq AnswerFor(q, Live(i), Ifs, i, TRUE).may
HalfRule == \A i \in {2, 3}, q \in Questions :
   \A p \in AnswerFor(q, Live(i), Ifs, i, TRUE).must : \A t \in TtlCases(p.r.ttl) :
      LET ka == {[r |-> [p.r EXCEPT !.ttl = t], u |-> p.u]} IN
      /\ (2 * t > p.r.ttl => MustOmit(p, ka))
      /\ (2 * t < p.r.ttl => ~MayOmit(p, ka))
      /\ (MustOmit(p, ka) => MayOmit(p, ka))
      /\ ~MustOmit(p, {[r |-> [p.r EXCEPT !.ttl = t, !.rk = "other"], u |-> p.u]})
SubnetArith == \A x, y \in 0..7, p \in 0..3 :           \* 3-bit toy addresses padded to one octet
   SameNet(<<x * 32>>, <<y * 32>>, p) <=> (x \div Pow2(3 - p) = y \div Pow2(3 - p))
=============================================================================
