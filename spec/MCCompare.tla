------------------------------ MODULE MCCompare ------------------------------
(***************************************************************************)
(* C08 (comparison part) on the model: for all pairs of record lists of up *)
(* to two records over 2 classes x {A, TXT} x 3 RDATA values, sorted by class, *)
(* type and RDATA as both probers do: the two sides always reach opposite  *)
(* verdicts, exactly one defers unless the lists are identical, and the     *)
(* order is class first, then type, then RDATA, then number of records.     *)
(* Every pair is printed as a case for replay through the crate's           *)
(* Probe::tiebreaking (spec -> implementation).                              *)
(***************************************************************************)
EXTENDS Compare, TLC, Json
Recs == {[cls |-> c, ty |-> t, rd |-> d] : c \in {1, 2}, t \in {1, 16}, d \in {<<1>>, <<1, 0>>, <<2>>}}
(* both probers hold their records sorted by class, type, RDATA (RFC 6762 8.2.1) *)
SortedOK(l) == \A i \in 1..(Len(l) - 1) : Cmp(l[i], l[i+1]) # "gt"
Lists == {l \in UNION {[1..n -> Recs] : n \in 1..2} : SortedOK(l)}
VARIABLES a, b
Init == a \in Lists /\ b \in Lists
Next == UNCHANGED <<a, b>>
Spec == Init /\ [][Next]_<<a, b>>
Opposite == CmpLists(a, b) = Flip(CmpLists(b, a))
ExactlyOne == (a # b) => (Loses(a, b) /\ ~Loses(b, a)) \/ (Loses(b, a) /\ ~Loses(a, b))
NoneIfSame == (a = b) => ~Loses(a, b) /\ ~Loses(b, a)
ClassFirst == (a[1].cls < b[1].cls) => Loses(a, b)
TypeNext == (a[1].cls = b[1].cls /\ a[1].ty < b[1].ty) => Loses(a, b)
CountLast == (Len(a) < Len(b) /\ \A i \in 1..Len(a) : a[i] = b[i]) => Loses(a, b)
EmitCase == PrintT(<<"CASE", ToJson([a |-> a, b |-> b, a_loses |-> Loses(a, b), b_loses |-> Loses(b, a)])>>)
=============================================================================
