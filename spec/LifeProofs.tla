----------------------------- MODULE LifeProofs -----------------------------
(***************************************************************************)
(* C11 for every TTL and every instant.  TLC checks these statements on      *)
(* Cache.tla for small TTLs only (its integers are 32-bit; a TTL of u32::MAX *)
(* seconds is 4.3 * 10^12 ms).  Here they are proved with TLAPS (SMT back     *)
(* end) over the operators of Life.tla - the very operators Cache.tla builds  *)
(* add_or_update, the cache-flush rule, verify and refresh_maybe from, and     *)
(* that TraceCache.tla compares with the real DnsCache field by field.         *)
(*                                                                          *)
(* Inv(e): the record's refresh time is one of its five marks and it does     *)
(* not live longer than its TTL.  Born establishes it; Restart, Flushed (when *)
(* FlushHits), CutTo (when CutHits) and Bumped (when Due) keep it.  And       *)
(* refresh_maybe                                                              *)
(*   - moves strictly forward through the marks (Rank goes up by one),        *)
(*   - is never due at the last mark, so at most four re-queries per copy,    *)
(*     one per mark ("once per mark"),                                        *)
(*   - is never due before 80 % nor at or after 100 % of the TTL as received  *)
(*     ("never after expiry"), whatever flush and verify did to the expiry,    *)
(*   - the marks are strictly ordered 80 < 85 < 90 < 95 < 100 % for ttl >= 1, *)
(*   - a restart puts the record back to the first mark of the new TTL        *)
(*     ("a fresh copy restarts the schedule"); a copy with TTL 1 (a goodbye)   *)
(*     is never refreshed.                                                    *)
(* Any record with (at least) the four lifetime fields will do: the cache's    *)
(* entries carry more.                                                        *)
(***************************************************************************)
EXTENDS Life, Integers, TLAPS

Rec(e) == /\ e = [x \in DOMAIN e |-> e[x]]
          /\ {"ttl", "created", "expires", "refresh"} \subseteq DOMAIN e
          /\ e.ttl \in Nat /\ e.ttl >= 1 /\ e.created \in Nat /\ e.expires \in Nat /\ e.refresh \in Nat
P(e, p) == Pct(e.created, e.ttl, p)
Inv(e) == /\ Rec(e)
          /\ e.refresh \in {P(e, 80), P(e, 85), P(e, 90), P(e, 95), P(e, 100)}
          /\ e.expires <= P(e, 100)
Rank(e) == IF e.refresh = P(e, 80) THEN 0 ELSE IF e.refresh = P(e, 85) THEN 1
           ELSE IF e.refresh = P(e, 90) THEN 2 ELSE IF e.refresh = P(e, 95) THEN 3 ELSE 4

THEOREM MarksOrdered ==
  ASSUME NEW cr \in Nat, NEW ttl \in Nat, ttl >= 1
  PROVE  /\ Pct(cr, ttl, 80) < Pct(cr, ttl, 85) /\ Pct(cr, ttl, 85) < Pct(cr, ttl, 90)
         /\ Pct(cr, ttl, 90) < Pct(cr, ttl, 95) /\ Pct(cr, ttl, 95) < Pct(cr, ttl, 100)
         /\ Pct(cr, ttl, 100) = cr + ttl * 1000
  BY DEF Pct

THEOREM BornInv ==
  ASSUME NEW ttl \in Nat, ttl >= 1, NEW t \in Nat
  PROVE  Inv(Born(ttl, t)) /\ Rank(Born(ttl, t)) = 0 /\ Born(ttl, t).expires = t + ttl * 1000
  BY DEF Inv, Rec, P, Pct, Born, Rank

THEOREM RestartInv ==
  ASSUME NEW e, Inv(e), NEW ttl \in Nat, ttl >= 1, NEW t \in Nat
  PROVE  /\ Inv(Restart(e, ttl, t))
         /\ Restart(e, ttl, t).expires = t + ttl * 1000
         /\ ttl > 1 => Rank(Restart(e, ttl, t)) = 0
         /\ ttl = 1 => \A u \in Nat : ~Due(Restart(e, ttl, t), u)
<1> DEFINE r == Restart(e, ttl, t)
<1>1. /\ r.ttl = ttl /\ r.created = t /\ r.expires = Pct(t, ttl, 100)
      /\ r.refresh = IF ttl > 1 THEN Pct(t, ttl, 80) ELSE Pct(t, ttl, 100)
      /\ DOMAIN r = DOMAIN e /\ r = [x \in DOMAIN r |-> r[x]]
  BY DEF Restart, Inv, Rec
<1>2. Inv(r)
  BY <1>1 DEF Inv, Rec, P, Pct
<1>3. r.expires = t + ttl * 1000
  BY <1>1 DEF Pct
<1>4. ttl > 1 => Rank(r) = 0
  BY <1>1 DEF Rank, P, Pct
<1>5. ttl = 1 => \A u \in Nat : ~Due(r, u)
  BY <1>1 DEF Due, Pct
<1> QED BY <1>2, <1>3, <1>4, <1>5

THEOREM FlushInv ==
  ASSUME NEW e, Inv(e), NEW t \in Nat, FlushHits(e, t)
  PROVE  Inv(Flushed(e, t)) /\ Flushed(e, t).expires = t + 1000 /\ Flushed(e, t).expires < e.expires
         /\ Flushed(e, t).refresh = e.refresh /\ Flushed(e, t).created = e.created /\ Flushed(e, t).ttl = e.ttl
<1> DEFINE r == Flushed(e, t)
<1>1. /\ r.ttl = e.ttl /\ r.created = e.created /\ r.expires = t + 1000 /\ r.refresh = e.refresh
      /\ DOMAIN r = DOMAIN e /\ r = [x \in DOMAIN r |-> r[x]]
  BY DEF Flushed, Inv, Rec
<1> QED BY <1>1 DEF Inv, Rec, P, Pct, FlushHits

THEOREM CutInv ==
  ASSUME NEW e, Inv(e), NEW dl \in Nat, CutHits(e, dl)
  PROVE  Inv(CutTo(e, dl)) /\ CutTo(e, dl).expires = dl /\ CutTo(e, dl).expires < e.expires
         /\ CutTo(e, dl).refresh = e.refresh
<1> DEFINE r == CutTo(e, dl)
<1>1. /\ r.ttl = e.ttl /\ r.created = e.created /\ r.expires = dl /\ r.refresh = e.refresh
      /\ DOMAIN r = DOMAIN e /\ r = [x \in DOMAIN r |-> r[x]]
  BY DEF CutTo, Inv, Rec
<1> QED BY <1>1 DEF Inv, Rec, P, Pct, CutHits

THEOREM NeverAfterExpiry ==
  ASSUME NEW e, Inv(e), NEW t \in Nat, Due(e, t)
  PROVE  /\ t < e.created + e.ttl * 1000        \* within the TTL as received
         /\ t >= e.created + e.ttl * 800         \* not before 80 % of it
         /\ t < e.expires                        \* nor after a flush / verify cut it short
         /\ e.refresh # P(e, 100)                \* and not at the last mark
  BY DEF Inv, Rec, P, Pct, Due

THEOREM BumpInv ==
  ASSUME NEW e, Inv(e), NEW t \in Nat, Due(e, t)
  PROVE  /\ Inv(Bumped(e))
         /\ Rank(Bumped(e)) = Rank(e) + 1
         /\ Bumped(e).refresh > e.refresh
         /\ Bumped(e).refresh \in {P(e, 85), P(e, 90), P(e, 95), P(e, 100)}
         /\ Bumped(e).expires = e.expires
<1> DEFINE r == Bumped(e)
<1>1. e.refresh # P(e, 100)
  BY NeverAfterExpiry
<1>2. /\ P(e, 80) < P(e, 85) /\ P(e, 85) < P(e, 90) /\ P(e, 90) < P(e, 95) /\ P(e, 95) < P(e, 100)
  BY MarksOrdered DEF Inv, Rec, P
<1>3. /\ NextMark(e) \in {P(e, 85), P(e, 90), P(e, 95), P(e, 100)}
      /\ NextMark(e) > e.refresh
      /\ NextMark(e) \in Nat
  BY <1>1, <1>2 DEF NextMark, P, Pct, Inv, Rec
<1>4. /\ r.ttl = e.ttl /\ r.created = e.created /\ r.expires = e.expires /\ r.refresh = NextMark(e)
      /\ DOMAIN r = DOMAIN e /\ r = [x \in DOMAIN r |-> r[x]]
  BY DEF Bumped, Inv, Rec
<1>5. Inv(r)
  BY <1>3, <1>4 DEF Inv, Rec, P, Pct
<1>6. Rank(r) = Rank(e) + 1
  BY <1>1, <1>2, <1>3, <1>4 DEF Rank, NextMark, P, Pct, Inv, Rec
<1> QED BY <1>3, <1>4, <1>5, <1>6 DEF P

(* at most four re-queries per copy: Rank is a natural number below 5 that every re-query raises by one *)
THEOREM RankBounded ==
  ASSUME NEW e, Inv(e)
  PROVE  Rank(e) \in 0..4 /\ (Rank(e) = 4 => \A t \in Nat : ~Due(e, t))
  BY DEF Inv, Rec, Rank, P, Pct, Due
=============================================================================
