------------------------------- MODULE MCWire -------------------------------
(***************************************************************************)
(* Validates the oracle itself and generates the small-scope cases of C02: *)
(* every message of up to MaxEntries entries drawn from a pool of          *)
(* questions and PTR/SRV/TXT/A records over names with shared suffixes and *)
(* the awkward labels  a  b  a.b  a\  (RFC 6763 escaping), encoded by a     *)
(* reference encoder without compression, must parse back to itself.       *)
(* Every case is printed as one JSON line; the harness replays the cases   *)
(* through the crate's encoder (C02 spec -> impl leg).                     *)
(***************************************************************************)
EXTENDS Wire, TLC, Json
CONSTANTS MaxEntries

La == <<97>>            \* "a"
Lb == <<98>>            \* "b"
Lab == <<97, 46, 98>>   \* "a.b" as ONE label
Lbs == <<97, 92>>       \* "a\"  (trailing backslash)
Ltcp == <<95, 116>>     \* "_t"
Lloc == <<108>>         \* "l"

Names == { <<La, Lb, Lloc>>, <<Lab, Lloc>>, <<Lb, Lloc>>, <<Lbs, Ltcp, Lloc>>, <<Ltcp, Lloc>> }

Q(n, ty) == [sec |-> "q", l |-> n, ty |-> ty]
R(sec, n, ty, fl, ttl4, rd) == [sec |-> sec, l |-> n, ty |-> ty, cls |-> 1, fl |-> fl, ttl4 |-> ttl4, rd |-> rd]
Pool ==
  { Q(<<La, Lb, Lloc>>, TANY), Q(<<Lab, Lloc>>, TPTR) }
  \cup { R(s, <<Ltcp, Lloc>>, TPTR, FALSE, <<0,0,17,148>>, [k |-> "name", tl |-> n]) :
           s \in {"an", "ar"}, n \in {<<Lab, Ltcp, Lloc>>, <<La, Lb, Ltcp, Lloc>>} }
  \cup { R(s, <<Lbs, Ltcp, Lloc>>, TSRV, TRUE, <<0,0,0,120>>, [k |-> "srv", tl |-> <<Lb, Lloc>>, srv |-> <<0, 0, 80>>]) :
           s \in {"an", "ns"} }
  \cup { R("an", <<Lab, Lloc>>, TA, TRUE, <<255,255,255,255>>, [k |-> "bytes", x |-> <<10, 0, 0, 1>>]),
         R("ar", <<La, Lb, Lloc>>, TTXT, TRUE, <<0,0,0,0>>, [k |-> "bytes", x |-> <<1, 97>>]) }

SecOrder(s) == CASE s = "q" -> 0 [] s = "an" -> 1 [] s = "ns" -> 2 [] s = "ar" -> 3

EncRd(rd) == CASE rd.k = "name"  -> EncName(rd.tl)
               [] rd.k = "srv"   -> B16(rd.srv[1]) \o B16(rd.srv[2]) \o B16(rd.srv[3]) \o EncName(rd.tl)
               [] rd.k = "bytes" -> rd.x
EncEntry(e) == IF e.sec = "q" THEN EncName(e.l) \o B16(e.ty) \o B16(1)
               ELSE LET rdb == EncRd(e.rd) IN
                    EncName(e.l) \o B16(e.ty) \o B16(e.cls + IF e.fl THEN 32768 ELSE 0)
                      \o e.ttl4 \o B16(Len(rdb)) \o rdb
RECURSIVE EncAll(_)
EncAll(es) == IF es = <<>> THEN <<>> ELSE EncEntry(Head(es)) \o EncAll(Tail(es))
Count(es, s) == Cardinality({i \in 1..Len(es) : es[i].sec = s})
RefEncode(es, flags) ==
  B16(0) \o B16(flags) \o B16(Count(es, "q")) \o B16(Count(es, "an")) \o B16(Count(es, "ns")) \o B16(Count(es, "ar"))
  \o EncAll(es)

Sorted(es) == \A i \in 1..(Len(es) - 1) : SecOrder(es[i].sec) <= SecOrder(es[i+1].sec)
Cases == { es \in UNION {[1..n -> Pool] : n \in 0..MaxEntries} : Sorted(es) }

VARIABLES m, resp
Init == m \in Cases /\ resp \in BOOLEAN
Next == UNCHANGED <<m, resp>>
Spec == Init /\ [][Next]_<<m, resp>>

Sel(es, s) == SelectSeq(es, LAMBDA e : e.sec = s)
RdSame(e, r) == /\ r.name = e.l /\ r.ty = e.ty /\ r.class = e.cls /\ r.flush = e.fl /\ r.ttl4 = e.ttl4
                /\ CASE e.rd.k = "name"  -> r.rd.kind = "name" /\ r.rd.target = e.rd.tl
                     [] e.rd.k = "srv"   -> r.rd.kind = "srv" /\ r.rd.target = e.rd.tl
                                            /\ <<r.rd.prio, r.rd.weight, r.rd.port>> = e.rd.srv
                     [] e.rd.k = "bytes" -> r.rd.kind = "bytes" /\ r.rd.bytes = e.rd.x
SecSame(es, rs) == Len(es) = Len(rs) /\ \A i \in 1..Len(es) : RdSame(es[i], rs[i])

OracleRoundTrip ==
  LET b == RefEncode(m, IF resp THEN 33792 ELSE 0)
      p == ParseMsg(b)
  IN /\ p.ok /\ p.next = Len(b) /\ p.qr = resp
     /\ Len(p.qs) = Len(Sel(m, "q"))
     /\ \A i \in 1..Len(p.qs) : p.qs[i].name = Sel(m, "q")[i].l /\ p.qs[i].ty = Sel(m, "q")[i].ty
     /\ SecSame(Sel(m, "an"), p.an) /\ SecSame(Sel(m, "ns"), p.ns) /\ SecSame(Sel(m, "ar"), p.ar)

EmitCase == PrintT(<<"CASE", ToJson([resp |-> resp, es |-> m])>>)
=============================================================================
