SPECIFICATION Spec
CONSTANTS Limit = 255
CONSTRAINT Track
POSTCONDITION Accepted
CHECK_DEADLOCK FALSE
