SPECIFICATION Spec
INVARIANTS Opposite ExactlyOne NoneIfSame ClassFirst TypeNext CountLast EmitCase
CHECK_DEADLOCK FALSE
