------------------------------- MODULE Wire -------------------------------
(***************************************************************************)
(* RFC 1035 / RFC 6762 message grammar as pure operators over byte         *)
(* sequences (a datagram is a Seq(0..255), offsets are 0-based as in the   *)
(* RFCs, so byte at offset o is b[o+1]).                                    *)
(*                                                                         *)
(* This module is the *oracle* for C01 (what a successful decode must      *)
(* agree with), for C02 (what an emitted packet means) and the reference   *)
(* against which the harness's own Rust reader/writer is cross-checked.    *)
(* It is deliberately lenient where the properties are silent: a           *)
(* compression pointer may point anywhere inside the datagram as long as   *)
(* following it never revisits a pointer target (cycle check).             *)
(***************************************************************************)
EXTENDS Naturals, Sequences, FiniteSets

U16(b, o) == b[o + 1] * 256 + b[o + 2]

TA == 1  TCNAME == 5  TPTR == 12  THINFO == 13  TTXT == 16
TAAAA == 28  TSRV == 33  TNSEC == 47  TANY == 255
KnownTypes == {TA, TCNAME, TPTR, THINFO, TTXT, TAAAA, TSRV, TNSEC, TANY}

Sub(b, from, len) == [i \in 1..len |-> b[from + i]]    \* bytes at offsets from .. from+len-1

(* Result of reading a name at offset o:                                    *)
(*   [ok, labels : Seq(Seq(byte)), next : offset after the name field]      *)
RECURSIVE RdNameR(_, _, _, _, _)
RdNameR(b, o, acc, nxt, seen) ==
  IF o >= Len(b) THEN [ok |-> FALSE, why |-> "name eof"]
  ELSE LET c == b[o + 1] IN
    IF c = 0 THEN [ok |-> TRUE, labels |-> acc, next |-> IF nxt = 0 THEN o + 1 ELSE nxt]
    ELSE IF c >= 192 THEN
        IF o + 2 > Len(b) THEN [ok |-> FALSE, why |-> "pointer eof"]
        ELSE LET p == (c - 192) * 256 + b[o + 2] IN
             IF p \in seen THEN [ok |-> FALSE, why |-> "pointer cycle"]
             ELSE RdNameR(b, p, acc, IF nxt = 0 THEN o + 2 ELSE nxt, seen \cup {p})
    ELSE IF c >= 64 THEN [ok |-> FALSE, why |-> "bad label type"]
    ELSE IF o + 1 + c > Len(b) THEN [ok |-> FALSE, why |-> "label eof"]
    ELSE RdNameR(b, o + 1 + c, Append(acc, Sub(b, o + 1, c)), nxt, seen)

RdName(b, o) == RdNameR(b, o, <<>>, 0, {})

(* The dotted byte string the crate stores for a label sequence:            *)
(* every label followed by '.', nothing escaped.                            *)
RECURSIVE Dotted(_)
Dotted(labels) == IF labels = <<>> THEN <<>>
                  ELSE Head(labels) \o <<46>> \o Dotted(Tail(labels))

NameLen(labels) == Len(Dotted(labels))

(* RDATA by type.  rs = offset of RDATA, rl = RDLENGTH.                     *)
RdRdata(b, ty, rs, rl) ==
  CASE ty \in {TPTR, TCNAME} ->
         LET n == RdName(b, rs) IN
         IF ~n.ok THEN n
         ELSE IF n.next # rs + rl THEN [ok |-> FALSE, why |-> "rdlen mismatch"]
         ELSE [ok |-> TRUE, kind |-> "name", target |-> n.labels]
    [] ty = TSRV ->
         IF rl < 7 THEN [ok |-> FALSE, why |-> "srv short"]
         ELSE LET n == RdName(b, rs + 6) IN
           IF ~n.ok THEN n
           ELSE IF n.next # rs + rl THEN [ok |-> FALSE, why |-> "rdlen mismatch"]
           ELSE [ok |-> TRUE, kind |-> "srv", target |-> n.labels,
                 prio |-> U16(b, rs), weight |-> U16(b, rs + 2), port |-> U16(b, rs + 4)]
    [] ty = TA -> IF rl # 4 THEN [ok |-> FALSE, why |-> "A rdlen"]
                  ELSE [ok |-> TRUE, kind |-> "bytes", bytes |-> Sub(b, rs, rl)]
    [] ty = TAAAA -> IF rl # 16 THEN [ok |-> FALSE, why |-> "AAAA rdlen"]
                     ELSE [ok |-> TRUE, kind |-> "bytes", bytes |-> Sub(b, rs, rl)]
    [] ty = TTXT -> [ok |-> TRUE, kind |-> "bytes", bytes |-> Sub(b, rs, rl)]
    [] ty = TNSEC ->
         LET n == RdName(b, rs) IN
         IF ~n.ok THEN n
         ELSE IF n.next > rs + rl THEN [ok |-> FALSE, why |-> "nsec rdlen"]
         ELSE [ok |-> TRUE, kind |-> "nsec", target |-> n.labels,
               bytes |-> Sub(b, n.next, rs + rl - n.next)]
    [] OTHER -> [ok |-> TRUE, kind |-> "opaque", bytes |-> Sub(b, rs, rl)]

(* One resource record at offset o.                                         *)
RdRR(b, o) ==
  LET nm == RdName(b, o) IN
  IF ~nm.ok THEN nm
  ELSE IF nm.next + 10 > Len(b) THEN [ok |-> FALSE, why |-> "rr header eof"]
  ELSE LET p   == nm.next
           ty  == U16(b, p)
           cl  == U16(b, p + 2)
           rl  == U16(b, p + 8)
       IN IF p + 10 + rl > Len(b) THEN [ok |-> FALSE, why |-> "rdata eof"]
          ELSE LET rd == RdRdata(b, ty, p + 10, rl) IN
               IF ~rd.ok THEN rd
               ELSE [ok |-> TRUE, name |-> nm.labels, ty |-> ty,
                     class |-> cl % 32768, flush |-> cl >= 32768,
                     ttl4 |-> Sub(b, p + 4, 4), rd |-> rd,
                     from |-> o, next |-> p + 10 + rl]

RECURSIVE RdRRs(_, _, _, _)
RdRRs(b, o, n, acc) ==
  IF n = 0 THEN [ok |-> TRUE, rrs |-> acc, next |-> o]
  ELSE LET r == RdRR(b, o) IN
       IF ~r.ok THEN r ELSE RdRRs(b, r.next, n - 1, Append(acc, r))

RECURSIVE RdQs(_, _, _, _)
RdQs(b, o, n, acc) ==
  IF n = 0 THEN [ok |-> TRUE, qs |-> acc, next |-> o]
  ELSE LET nm == RdName(b, o) IN
       IF ~nm.ok THEN nm
       ELSE IF nm.next + 4 > Len(b) THEN [ok |-> FALSE, why |-> "question eof"]
       ELSE RdQs(b, nm.next + 4, n - 1,
                 Append(acc, [name |-> nm.labels, ty |-> U16(b, nm.next),
                              class |-> U16(b, nm.next + 2)]))

(* Whole message.  Trailing bytes are tolerated (next is reported).         *)
ParseMsg(b) ==
  IF Len(b) < 12 THEN [ok |-> FALSE, why |-> "short header"]
  ELSE LET q == RdQs(b, 12, U16(b, 4), <<>>) IN
    IF ~q.ok THEN q
    ELSE LET an == RdRRs(b, q.next, U16(b, 6), <<>>) IN
      IF ~an.ok THEN an
      ELSE LET ns == RdRRs(b, an.next, U16(b, 8), <<>>) IN
        IF ~ns.ok THEN ns
        ELSE LET ar == RdRRs(b, ns.next, U16(b, 10), <<>>) IN
          IF ~ar.ok THEN ar
          ELSE [ok |-> TRUE, id |-> U16(b, 0), flags |-> U16(b, 2),
                qr |-> b[3] >= 128, tc |-> (b[3] \div 2) % 2 = 1,
                qs |-> q.qs, an |-> an.rrs, ns |-> ns.rrs, ar |-> ar.rrs,
                next |-> ar.next]

(***************************************************************************)
(* Strict well-formedness of an *emitted* packet (C02): everything above,  *)
(* plus: no trailing bytes, labels 1..63 bytes, and every compression      *)
(* pointer targets an offset where a label (or a pointer) of an earlier     *)
(* name starts, strictly below the pointer itself.                          *)
(***************************************************************************)
RECURSIVE StrictNameR(_, _, _)
StrictNameR(b, o, hops) ==         \* TRUE iff the name at o is strictly encoded
  IF o >= Len(b) THEN FALSE
  ELSE LET c == b[o + 1] IN
    IF c = 0 THEN TRUE
    ELSE IF c >= 192 THEN
        /\ o + 2 <= Len(b)
        /\ LET p == (c - 192) * 256 + b[o + 2] IN
             /\ p < o /\ p >= 12 /\ hops < 128
             /\ StrictNameR(b, p, hops + 1)
    ELSE IF c >= 64 THEN FALSE
    ELSE o + 1 + c <= Len(b) /\ StrictNameR(b, o + 1 + c, hops)

StrictName(b, o) == StrictNameR(b, o, 0)

(* reference encoder, no compression: used to validate the oracle itself   *)
RECURSIVE EncName(_)
EncName(labels) == IF labels = <<>> THEN <<0>>
                   ELSE <<Len(Head(labels))>> \o Head(labels) \o EncName(Tail(labels))
B16(n) == <<n \div 256, n % 256>>
=============================================================================
