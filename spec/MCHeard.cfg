SPECIFICATION Spec
CONSTANTS
  MaxArr = 2
  MaxTime = 3500
INVARIANTS LiveOnlyWithinTtl LatestGoverns GoodbyeWithdraws FlushRule VerifyShortens
CHECK_DEADLOCK FALSE
