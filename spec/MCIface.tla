------------------------------- MODULE MCIface -------------------------------
(***************************************************************************)
(* C18 (selection part) on the model: for every topology of one to three   *)
(* interfaces (loopback, eth0, wlan0; IPv4, IPv6 or both on each) and every *)
(* sequence of up to MaxLen enable / disable selections over every kind of  *)
(* selector, the declarative reading of the statement (enabled unless the   *)
(* LAST matching selection, in call order, disables) agrees with applying    *)
(* the selections one after the other; selections are monotone in nothing    *)
(* but order: a trailing enable(All) enables everything, a trailing          *)
(* disable(All) nothing.  With Emit = TRUE every (topology, selections) pair *)
(* is printed as a case that the harness replays on a real daemon            *)
(* (spec -> implementation); TraceIface.tla judges the recorded runs.        *)
(***************************************************************************)
EXTENDS Interfaces, TLC, Json
CONSTANTS MaxLen, Emit

Ad(ip, o, p, v4, lo) == [ip |-> ip, o |-> o, p |-> p, v4 |-> v4, lo |-> lo]
Lo4 == Ad("127.0.0.1", <<127, 0, 0, 1>>, 8, TRUE, TRUE)
Lo6 == Ad("::1", <<0,0,0,0,0,0,0,0,0,0,0,0,0,0,0,1>>, 128, FALSE, TRUE)
E4  == Ad("192.168.1.10", <<192, 168, 1, 10>>, 24, TRUE, FALSE)
E6  == Ad("fe80::1:10", <<254,128,0,0,0,0,0,0,0,0,0,0,0,1,0,16>>, 64, FALSE, FALSE)
W4  == Ad("192.168.2.10", <<192, 168, 2, 10>>, 24, TRUE, FALSE)
W6  == Ad("2001:db8:2::10", <<32,1,13,184,0,2,0,0,0,0,0,0,0,0,0,16>>, 64, FALSE, FALSE)

If(name, idx, addrs) == [name |-> name, idx |-> idx, up |-> TRUE, addrs |-> addrs]
LoVar == {<<>>, <<Lo4>>, <<Lo4, Lo6>>}
EVar  == {<<>>, <<E4>>, <<E6>>, <<E4, E6>>}
WVar  == {<<>>, <<W4>>, <<W6>>, <<W4, W6>>}
Top(l, e, w) == (IF l = <<>> THEN <<>> ELSE <<If("lo", 1, l)>>)
                \o (IF e = <<>> THEN <<>> ELSE <<If("eth0", 2, e)>>)
                \o (IF w = <<>> THEN <<>> ELSE <<If("wlan0", 3, w)>>)
Tops == {Top(l, e, w) : l \in LoVar, e \in EVar, w \in WVar} \ {<<>>}

K(k, name, ip, idx) == [k |-> k, name |-> name, ip |-> ip, idx |-> idx]
Kinds == {K("All", "", "", 0), K("IPv4", "", "", 0), K("IPv6", "", "", 0),
          K("Name", "eth0", "", 0), K("Name", "wlan0", "", 0),
          K("Addr", "", "192.168.1.10", 0), K("Addr", "", "fe80::1:10", 0), K("Addr", "", "10.9.9.9", 0),
          K("LoopbackV4", "", "", 0), K("LoopbackV6", "", "", 0),
          K("IndexV4", "", "", 2), K("IndexV6", "", "", 3), K("IndexV4", "", "", 3)}
Sel == {[en |-> e, kind |-> k] : e \in BOOLEAN, k \in Kinds}
SelSeqs == UNION {[1..n -> Sel] : n \in 0..MaxLen}

VARIABLES top, sels
Init == top \in Tops /\ sels \in SelSeqs
Next == UNCHANGED <<top, sels>>
Spec == Init /\ [][Next]_<<top, sels>>

(* the selections as the daemon keeps them: Addr resolved at call time       *)
Res == [i \in 1..Len(sels) |-> [sels[i] EXCEPT !.kind = ResolveKind(@, top)]]

Twin      == Enabled(top, Res) = EnabledOp(top, Res)
Default   == sels = <<>> => Enabled(top, Res) = Flat(top)
LastAll   == sels # <<>> /\ sels[Len(sels)].kind.k = "All"
               => Enabled(top, Res) = (IF sels[Len(sels)].en THEN Flat(top) ELSE {})
(* a selection that matches nothing changes nothing                           *)
NoMatch   == \A i \in 1..Len(Res) : (\A a \in Flat(top) : ~Matches(Res[i].kind, a))
               => Enabled(top, Res) = Enabled(top, SubSeq(Res, 1, i - 1) \o SubSeq(Res, i + 1, Len(Res)))
(* only the last of two selections with the same selector counts             *)
LastWins  == \A i, j \in 1..Len(Res) : (i < j /\ Res[i].kind = Res[j].kind)
               => Enabled(top, Res) = Enabled(top, SubSeq(Res, 1, i - 1) \o SubSeq(Res, i + 1, Len(Res)))
(* an Addr selector covers the whole family of its interface                  *)
AddrIsIfFam == \A i \in 1..Len(sels) : (sels[i].kind.k = "Addr" /\ Res[i].kind.k # "Addr")
               => \A a \in Flat(top) : Matches(Res[i].kind, a) <=>
                     \E b \in Flat(top) : b.ip = sels[i].kind.ip /\ b.idx = a.idx /\ b.v4 = a.v4
EmitCase == Emit => PrintT(<<"CASE", ToJson([top |-> [i \in 1..Len(top) |-> [name |-> top[i].name, idx |-> top[i].idx,
                                                                             addrs |-> [j \in 1..Len(top[i].addrs) |-> top[i].addrs[j].ip]]],
                                                sels |-> sels])>>)
=============================================================================
