//! Driver family `conflict` (C08, with C07 / C12 clauses): two or three real
//! daemons, each on its own simulated host on one loss-free link, register the
//! same instance and host name with different addresses / ports at every
//! relative start offset (dense, 1 ms resolution); and a single daemon that is
//! sent a conflicting response or a competing probe at every probe step.
//! Policy W; the harness carries every datagram to the peers in their next
//! iteration.

use crate::respond::Svc;
use crate::rng::Rng;
use crate::sim::*;
use crate::wire::{self, Msg, Name, Question, RData, RR};
use serde_json::{json, Value};

/// The renaming rule of the statement: instance 'x' -> 'x (2)' -> 'x (3)' ...,
/// host 'h' -> 'h-2' -> 'h-3' ... (first label only). Independent of the crate.
/// Position of the first dot that separates labels (not an escaped one).
fn first_label_end(s: &str) -> usize {
    let b = s.as_bytes();
    let mut i = 0;
    while i < b.len() {
        match b[i] {
            b'\\' if i + 1 < b.len() => i += 2,
            b'.' => return i,
            _ => i += 1,
        }
    }
    b.len()
}

pub fn next_instance_name(full: &str) -> String {
    let p0 = first_label_end(full);
    let (first, rest) = (&full[..p0], if p0 < full.len() { &full[p0 + 1..] } else { "" });
    let renamed = match first.rfind(" (") {
        Some(p) if first.ends_with(')') => match first[p + 2..first.len() - 1].parse::<u32>() {
            Ok(n) => format!("{} ({})", &first[..p], n + 1),
            Err(_) => format!("{} (2)", first),
        },
        _ => format!("{} (2)", first),
    };
    format!("{}.{}", renamed, rest)
}

pub fn next_host_name(host: &str) -> String {
    let (first, rest) = host.split_once('.').unwrap_or((host, ""));
    let renamed = match first.rfind('-') {
        Some(p) => match first[p + 1..].parse::<u32>() {
            Ok(n) => format!("{}-{}", &first[..p], n + 1),
            Err(_) => format!("{}-2", first),
        },
        None => format!("{}-2", first),
    };
    format!("{}.{}", renamed, rest)
}

fn renames(mut s: String, f: fn(&str) -> String, n: usize) -> Vec<String> {
    let mut v = vec![s.clone()];
    for _ in 0..n {
        s = f(&s);
        v.push(s.clone());
    }
    v
}

fn note_names(sim: &mut Sim, d: usize, sv: &Svc) {
    let inst = renames(sv.fullname(), next_instance_name, 3);
    let host = renames(sv.host.clone(), next_host_name, 3);
    sim.log(json!({"e": "names", "d": d, "fnk": sv.fullname().to_lowercase(),
        "instu": Name::from_escaped(&inst[0]).unescaped(), "inst": inst, "instk": inst.iter().map(|x| Name::from_escaped(x).lower().unescaped()).collect::<Vec<_>>(),
        "host": host, "hostk": host.iter().map(|x| x.to_lowercase()).collect::<Vec<_>>()}));
}

fn v6k(k: u8) -> std::net::IpAddr {
    crate::respond::v6(&format!("fe80::1:{:x}", 0x10 + k as u16))
}

fn host_if(k: u8, dual: bool) -> Vec<IfSpec> {
    let mut addrs = vec![(v4(192, 168, 1, 10 + k), 24)];
    if dual {
        addrs.push((v6k(k), 64));
    }
    vec![IfSpec { name: "eth0".into(), index: 2, addrs, up: true }]
}

/// Two or three daemons claiming the same names.
pub fn scenario_peers(id: u64, seed: u64, thorough: bool) -> Vec<Value> {
    scenario_peers_at(id, seed, thorough, None)
}

/// `starts`: start ticks (250 ms) enumerated by TLC from ProbeMech.tla; a seeded jitter below one tick is added.
pub fn scenario_peers_at(id: u64, seed: u64, _thorough: bool, starts: Option<Vec<u64>>) -> Vec<Value> {
    let mut r = Rng::new(seed.wrapping_mul(2038074743).wrapping_add(id));
    let n = match &starts { Some(v) => v.len(), None => if r.chance(1, 4) { 3 } else { 2 } };
    let dual = r.chance(1, 3);
    let hosts: Vec<Vec<IfSpec>> = (0..n).map(|k| host_if(k as u8, dual)).collect();
    let link: Vec<(usize, u32)> = (0..n).map(|k| (k, 2u32)).collect();
    let mut s = Sim::new(json!({"id": id, "family": if starts.is_some() { "probecases" } else { "conflict" }, "kind": "peers", "n": n, "dual": dual}), seed ^ id, hosts, vec![link]);
    let inst = *r.pick(&["Shared", "Dot.ted", "Num (2)", "Caf\u{e9}"]);
    let host = *r.pick(&["samehost.local.", "host-2.local.", "Host.local."]);
    let same_host = r.chance(2, 3);
    let mut svcs = vec![];
    let mut offs: Vec<u64> = vec![0];
    for _ in 1..n {
        offs.push(match r.below(5) { 0 => 0, 1 => r.below(300), 2 => r.below(1100), 3 => r.range(700, 2500), _ => r.range(2000, 4500) });
    }
    if let Some(v) = &starts {
        offs = v.iter().map(|t| t * 250 + r.below(250)).collect();
    }
    let mut ds = vec![];
    for k in 0..n {
        let d = s.spawn(k);
        s.monitor(d);
        s.kick(d);
        ds.push(d);
        svcs.push(Svc {
            // (every other scenario: registered under a subtype - the goodbye withdraws the subtype PTR under the name in use)
            ty: if id % 2 == 0 { "_printer._sub._http._tcp.local.".into() } else { "_http._tcp.local.".into() },
            inst: inst.to_string(),
            host: if same_host { host.to_string() } else { format!("own{}.local.", k) },
            addrs: if dual { vec![v4(192, 168, 1, 10 + k as u8), v6k(k as u8)] } else { vec![v4(192, 168, 1, 10 + k as u8)] },
            port: 8000 + k as u16,
            props: vec![("who".into(), format!("{}", k))],
            probe: true,
        });
    }
    let mut order: Vec<usize> = (0..n).collect();
    order.sort_by_key(|k| offs[*k]);
    for k in order {
        s.run_until(offs[k]);
        note_names(&mut s, ds[k], &svcs[k]);
        s.register(ds[k], svcs[k].info());
        s.kick(ds[k]);
    }
    let end = offs.iter().max().unwrap() + 9000;
    s.run_until(end);
    // (start ticks of an enumerated vector: the outcome is compared with what ProbeMech.tla can settle in)
    match &starts {
        Some(v) => s.log(json!({"e": "outcome", "n": n, "same_host": same_host, "start": v})),
        None => s.log(json!({"e": "outcome", "n": n, "same_host": same_host})),
    }
    // afterwards: every question type against every daemon, then unregister one (goodbye under current names)
    for k in 0..n {
        let full = svcs[k].fullname();
        let mut names = vec![full.clone(), svcs[k].host.clone()];
        names.push(next_instance_name(&full));
        names.push(next_host_name(&svcs[k].host));
        for nm in names {
            for ty in [wire::T_ANY, wire::T_SRV, wire::T_A] {
                let mut m = Msg::default();
                m.questions.push(Question { name: Name::from_escaped(&nm), ty, class: 1 });
                let t = s.t() + 50;
                s.run_until(t);
                s.deliver(ds[k], 2, sock4(192, 168, 1, 200, 5353), &m, true);
                s.kick(ds[k]);
            }
        }
        let mut m = Msg::default();
        m.questions.push(Question { name: Name::from_escaped("_http._tcp.local."), ty: wire::T_PTR, class: 1 });
        let t = s.t() + 50;
        s.run_until(t);
        s.deliver(ds[k], 2, sock4(192, 168, 1, 200, 5353), &m, true);
        s.kick(ds[k]);
    }
    let k = r.below(n as u64) as usize;
    let t = s.t() + 500;
    s.run_until(t);
    s.unregister(ds[k], &svcs[k].fullname());
    s.kick(ds[k]);
    let t = s.t() + 1500;
    s.run_until(t);
    s.log(json!({"e": "end"}));
    s.finish()
}

/// One daemon; a conflicting response or a competing probe injected at a chosen moment.
pub fn scenario_inject(id: u64, seed: u64, _thorough: bool) -> Vec<Value> {
    let mut r = Rng::new(seed.wrapping_mul(715827883).wrapping_add(id));
    let dual = r.chance(1, 2);
    let mut s = Sim::new(json!({"id": id, "family": "conflict", "kind": "inject", "n": 1, "dual": dual}), seed ^ id, vec![host_if(0, dual)], vec![vec![(0, 2)]]);
    let d = s.spawn(0);
    s.monitor(d);
    s.kick(d);
    // every third of these scenarios is directed at the deferral after a lost tiebreak: a losing competing probe while our
    // own probing is under way (the monitor then holds the next probe to the one-second wait: C08.backoff)
    let directed = id % 6 == 1;
    let inst = if directed { *r.pick(&["Mine", "Mine (2)", "x (9)"]) } else { *r.pick(&["Mine", "Mine (2)", "Dot.ted", "x (9)"]) };
    let host = *r.pick(&["myhost.local.", "myhost-2.local.", "box-9.local."]);
    let sv = Svc { ty: "_http._tcp.local.".into(), inst: inst.into(), host: host.into(),
        addrs: if dual { vec![v4(192, 168, 1, 10), v6k(0)] } else { vec![v4(192, 168, 1, 10)] }, port: 8000,
        props: vec![], probe: true };
    // somebody else's address record for our host name: IPv4, or (dual stack) IPv6
    let foreign_addr = |r: &mut Rng| -> RData {
        if dual && r.chance(1, 2) { RData::Aaaa([0xfe, 0x80, 0, 0, 0, 0, 0, 0, 0, 0, 0, 0, 0, 1, 0, 0x66]) } else { RData::A([192, 168, 1, 66]) }
    };
    note_names(&mut s, d, &sv);
    s.register(d, sv.info());
    s.kick(d);
    let full = Name::from_escaped(&sv.fullname());
    let hostn = Name::from_escaped(host);
    let src = sock4(192, 168, 1, 66, 5353);
    // when: before the first probe, between probes, after the third, after the announcement
    let mut when = match r.below(6) { 0 => r.below(250), 1 => r.range(250, 500), 2 => r.range(500, 750), 3 => r.range(750, 1000), 4 => r.range(1000, 1300), _ => r.range(1300, 3000) };
    let mut what = r.below(5);
    if directed {
        when = r.range(130, 760);
        what = 2;
    }
    s.run_until(when);
    match what {
        0 | 1 => {
            // conflicting response: same name, different rdata (instance and/or host)
            let mut an = vec![];
            if r.chance(2, 3) {
                an.push(RR::new(full.clone(), true, 120, RData::Srv { prio: 0, weight: 0, port: 9999, target: Name::from_labels(&["other", "local"]) }));
            }
            if an.is_empty() || r.chance(1, 2) {
                let rd = foreign_addr(&mut r);
                an.push(RR::new(hostn.clone(), true, 120, rd));
            }
            s.deliver(d, 2, src, &wire::response(an), true);
        }
        2 | 3 => {
            // competing probe whose data is lexicographically later (we lose) or earlier (we win)
            let lose = directed || r.chance(2, 3);
            let mut q = wire::query(vec![(full.clone(), wire::T_ANY), (hostn.clone(), wire::T_ANY)]);
            q.authorities = vec![
                RR::new(full.clone(), false, 120, RData::Srv { prio: 0, weight: 0, port: if lose { 9000 } else { 1 }, target: hostn.clone() }),
                RR::new(full.clone(), false, 4500, RData::Txt(vec![0])),
                RR::new(hostn.clone(), false, 120, RData::A(if lose { [192, 168, 1, 250] } else { [1, 1, 1, 1] })),
            ];
            // (the datagram's origin tells the monitor which way the comparison must go: the data above is chosen for it)
            let bytes = wire::build(&q, true);
            s.deliver_raw(d, 2, true, src, bytes, Some(q.clone()), if lose { "tiebreak-lose" } else { "tiebreak-win" });
        }
        _ => {
            // a response with the SAME data (our own announcement echoed / another interface): no conflict
            let an = vec![RR::new(hostn.clone(), true, 120, RData::A([192, 168, 1, 10]))];
            s.deliver(d, 2, src, &wire::response(an), true);
        }
    }
    s.kick(d);
    let t = s.t() + 9000;
    s.run_until(t);
    for nm in [sv.fullname(), next_instance_name(&sv.fullname()), host.to_string(), next_host_name(host)] {
        for ty in [wire::T_ANY, wire::T_SRV] {
            let mut m = Msg::default();
            m.questions.push(Question { name: Name::from_escaped(&nm), ty, class: 1 });
            let t = s.t() + 50;
            s.run_until(t);
            s.deliver(d, 2, sock4(192, 168, 1, 200, 5353), &m, true);
            s.kick(d);
        }
    }
    let t = s.t() + 300;
    s.run_until(t);
    s.unregister(d, &sv.fullname());
    s.kick(d);
    let t = s.t() + 1000;
    s.run_until(t);
    s.log(json!({"e": "end"}));
    s.finish()
}

pub fn scenario(id: u64, seed: u64, thorough: bool) -> Vec<Value> {
    if id % 2 == 0 { scenario_peers(id, seed, thorough) } else { scenario_inject(id, seed, thorough) }
}
