//! C01 driver: pushes datagrams through the crate's real decoder
//! (`DnsIncoming::new` via the facade) in child processes under a watchdog
//! and records one `decode` trace line per datagram for TraceDecode.tla.

use crate::rng::Rng;
use crate::wire::{self, Msg, Name, RData, RR};
use mdns_sd::verif as fac;
use serde_json::{json, Value};
use std::io::{BufRead, BufReader, Read, Write};
use std::process::{Child, Command, Stdio};
use std::sync::mpsc;
use std::time::{Duration, Instant};

fn rec_json(r: &fac::RecordView) -> Value {
    let mut v = json!({
        "n": r.name.as_bytes(),
        "ty": r.ty,
        "cls": r.class,
        "fl": r.flush,
        "ttl4": r.ttl.to_be_bytes(),
    });
    let o = v.as_object_mut().unwrap();
    if let Some(t) = &r.target {
        o.insert("t".into(), json!(t.as_bytes()));
    }
    if let Some((p, w, po)) = r.srv {
        o.insert("srv".into(), json!([p, w, po]));
    }
    if let Some(b) = &r.bytes {
        o.insert("x".into(), json!(b));
    }
    v
}

/// Decodes one datagram with the crate and describes the outcome.
pub fn decode_outcome(bytes: &[u8]) -> Value {
    let t0 = Instant::now();
    let data = bytes.to_vec();
    // (peak heap use of the call: the decoder and the view built from its result; the datagram itself is not counted)
    let (res, mem) = crate::memcount::measure(|| std::panic::catch_unwind(move || fac::decode(data, "sim0", 2)));
    let ms = t0.elapsed().as_millis() as u64;
    match res {
        Err(_) => json!({"out": "panic", "ms": ms, "mem": mem, "q": [], "an": [], "ns": [], "ar": []}),
        Ok(Err(_)) => json!({"out": "err", "ms": ms, "mem": mem, "q": [], "an": [], "ns": [], "ar": []}),
        Ok(Ok(m)) => json!({
            "out": "ok", "ms": ms, "mem": mem,
            "q": m.questions.iter().map(|(n, t)| json!({"n": n.as_bytes(), "ty": t})).collect::<Vec<_>>(),
            "an": m.answers.iter().map(rec_json).collect::<Vec<_>>(),
            "ns": m.authorities.iter().map(rec_json).collect::<Vec<_>>(),
            "ar": m.additionals.iter().map(rec_json).collect::<Vec<_>>(),
        }),
    }
}

/// Child process: reads (u32 length, bytes)*, answers one JSON line each.
pub fn worker_main() {
    std::panic::set_hook(Box::new(|_| {}));
    let stdin = std::io::stdin();
    let mut inp = stdin.lock();
    let stdout = std::io::stdout();
    let mut out = stdout.lock();
    loop {
        let mut lb = [0u8; 4];
        if inp.read_exact(&mut lb).is_err() {
            return;
        }
        let n = u32::from_be_bytes(lb) as usize;
        let mut buf = vec![0u8; n];
        if inp.read_exact(&mut buf).is_err() {
            return;
        }
        let v = decode_outcome(&buf);
        let _ = writeln!(out, "{}", v);
        let _ = out.flush();
    }
}

struct Worker {
    child: Child,
    rx: mpsc::Receiver<String>,
}

fn spawn_worker() -> Worker {
    let exe = std::env::current_exe().expect("current_exe");
    let mut child = Command::new(exe)
        .arg("decode-worker")
        .stdin(Stdio::piped())
        .stdout(Stdio::piped())
        .stderr(Stdio::null())
        .spawn()
        .expect("spawn decode-worker");
    let stdout = child.stdout.take().unwrap();
    let (tx, rx) = mpsc::channel();
    std::thread::spawn(move || {
        let r = BufReader::new(stdout);
        for line in r.lines() {
            match line {
                Ok(l) => {
                    if tx.send(l).is_err() {
                        break;
                    }
                }
                Err(_) => break,
            }
        }
    });
    Worker { child, rx }
}

const WATCHDOG: Duration = Duration::from_secs(6);

fn run_one(w: &mut Worker, bytes: &[u8]) -> Value {
    let ok = {
        let si = w.child.stdin.as_mut().unwrap();
        si.write_all(&(bytes.len() as u32).to_be_bytes()).is_ok()
            && si.write_all(bytes).is_ok()
            && si.flush().is_ok()
    };
    let hang = |ms: u64, out: &str| json!({"out": out, "ms": ms, "q": [], "an": [], "ns": [], "ar": []});
    if !ok {
        let _ = w.child.kill();
        let _ = w.child.wait();
        *w = spawn_worker();
        return hang(0, "panic");
    }
    match w.rx.recv_timeout(WATCHDOG) {
        Ok(line) => serde_json::from_str(&line).unwrap_or_else(|_| hang(0, "panic")),
        Err(mpsc::RecvTimeoutError::Timeout) => {
            let _ = w.child.kill();
            let _ = w.child.wait();
            *w = spawn_worker();
            hang(WATCHDOG.as_millis() as u64, "hang")
        }
        Err(mpsc::RecvTimeoutError::Disconnected) => {
            // the child died (abort / stack overflow): counts as a crash
            let _ = w.child.kill();
            let _ = w.child.wait();
            *w = spawn_worker();
            hang(0, "panic")
        }
    }
}

pub struct Case {
    pub kind: &'static str,
    pub bytes: Vec<u8>,
}

// ---------------------------------------------------------------------------
// generators
// ---------------------------------------------------------------------------

fn header(flags: u16, qd: u16, an: u16, ns: u16, ar: u16) -> Vec<u8> {
    let mut h = vec![0u8, 0];
    h.extend_from_slice(&flags.to_be_bytes());
    h.extend_from_slice(&qd.to_be_bytes());
    h.extend_from_slice(&an.to_be_bytes());
    h.extend_from_slice(&ns.to_be_bytes());
    h.extend_from_slice(&ar.to_be_bytes());
    h
}

/// Every string over `alphabet` up to `maxlen`, placed after a header that
/// makes the bytes be read as a question name, an RR, or the RDATA of a
/// PTR / SRV / NSEC / HINFO record.
pub fn enumerated(alphabet: &[u8], maxlen: usize) -> Vec<Case> {
    let mut strings: Vec<Vec<u8>> = vec![vec![]];
    let mut frontier: Vec<Vec<u8>> = vec![vec![]];
    for _ in 0..maxlen {
        let mut next = Vec::new();
        for s in &frontier {
            for a in alphabet {
                let mut t = s.clone();
                t.push(*a);
                next.push(t);
            }
        }
        strings.extend(next.iter().cloned());
        frontier = next;
    }
    let mut out = Vec::new();
    for s in &strings {
        // (a) question name followed by type/class
        let mut b = header(0, 1, 0, 0, 0);
        b.extend_from_slice(s);
        b.extend_from_slice(&[0, 12, 0, 1]);
        out.push(Case { kind: "enum-q", bytes: b });
        // (b) raw resource record
        let mut b = header(0x8400, 0, 1, 0, 0);
        b.extend_from_slice(s);
        out.push(Case { kind: "enum-rr", bytes: b });
        // (c) RDATA of a record whose owner is "a." ; the name at offset 12
        // gives pointers something to aim at
        for ty in [wire::T_PTR, wire::T_SRV, wire::T_NSEC, wire::T_HINFO] {
            for delta in [0i32, -1, 1] {
                let rl = s.len() as i32 + delta;
                if rl < 0 {
                    continue;
                }
                let mut b = header(0x8400, 0, 1, 0, 0);
                b.extend_from_slice(&[1, b'a', 0]);
                b.extend_from_slice(&ty.to_be_bytes());
                b.extend_from_slice(&[0, 1, 0, 0, 0, 9]);
                b.extend_from_slice(&(rl as u16).to_be_bytes());
                b.extend_from_slice(s);
                out.push(Case { kind: "enum-rdata", bytes: b });
            }
        }
    }
    out
}

fn rand_label(r: &mut Rng) -> Vec<u8> {
    let pool: [&[u8]; 10] = [
        b"a", b"b", b"host", b"_http", b"_tcp", b"local", b"My.Printer", b"back\\slash",
        "caf\u{e9}".as_bytes(), b"_sub",
    ];
    match r.below(12) {
        0 => vec![b'x'; 63],
        1 => vec![b'y'; r.range(1, 62) as usize],
        _ => r.pick(&pool).to_vec(),
    }
}

fn rand_name(r: &mut Rng) -> Name {
    let n = r.range(1, 5) as usize;
    let mut ls: Vec<Vec<u8>> = (0..n).map(|_| rand_label(r)).collect();
    if r.chance(2, 3) {
        ls.push(b"local".to_vec());
    }
    Name(ls)
}

pub fn rand_rr(r: &mut Rng) -> RR {
    let name = rand_name(r);
    let ttl = match r.below(6) {
        0 => 0,
        1 => 1,
        2 => 120,
        3 => 4500,
        4 => u32::MAX,
        _ => r.next() as u32,
    };
    let rd = match r.below(9) {
        0 => RData::A([r.next() as u8, 1, 2, 3]),
        1 => {
            let mut o = [0u8; 16];
            o.copy_from_slice(&r.bytes(16));
            RData::Aaaa(o)
        }
        2 | 3 => RData::Ptr(rand_name(r)),
        4 => RData::Srv {
            prio: r.next() as u16,
            weight: r.next() as u16,
            port: r.next() as u16,
            target: rand_name(r),
        },
        5 => {
            let n = r.below(40) as usize;
            RData::Txt(r.bytes(n))
        }
        6 => RData::Nsec {
            next: rand_name(r),
            rest: {
                let n = r.range(1, 32) as usize;
                let mut v = vec![0u8, n as u8];
                v.extend(r.bytes(n));
                v
            },
        },
        7 => RData::Cname(rand_name(r)),
        _ => {
            let n = r.below(20) as usize;
            RData::Other(r.bytes(n))
        }
    };
    let mut rr = RR::new(name, r.chance(1, 2), ttl, rd);
    if rr.ty == 0 {
        rr.ty = *r.pick(&[13u16, 2, 6, 41, 255, 65535]);
        if rr.ty == 13 {
            // HINFO: two char-strings
            rr.rdata = RData::Other(vec![3, b'c', b'p', b'u', 2, b'o', b's']);
        }
    }
    rr
}

pub fn rand_valid_msg(r: &mut Rng) -> Msg {
    let mut m = Msg::default();
    m.flags = if r.chance(2, 3) { 0x8400 } else { 0 };
    m.id = if r.chance(1, 4) { r.next() as u16 } else { 0 };
    for _ in 0..r.below(3) {
        m.questions.push(wire::Question {
            name: rand_name(r),
            ty: *r.pick(&[1u16, 12, 16, 28, 33, 255]),
            class: if r.chance(1, 5) { 0x8001 } else { 1 },
        });
    }
    for _ in 0..r.below(5) {
        m.answers.push(rand_rr(r));
    }
    for _ in 0..r.below(3) {
        m.authorities.push(rand_rr(r));
    }
    for _ in 0..r.below(4) {
        m.additionals.push(rand_rr(r));
    }
    m
}

pub fn mutate(r: &mut Rng, mut b: Vec<u8>) -> Vec<u8> {
    if b.is_empty() {
        return b;
    }
    for _ in 0..r.range(1, 4) {
        let len = b.len() as u64;
        if len == 0 {
            break;
        }
        match r.below(7) {
            0 => {
                let i = r.below(len) as usize;
                b[i] ^= 1 << r.below(8);
            }
            1 => {
                let i = r.below(len) as usize;
                b[i] = r.next() as u8;
            }
            2 => {
                b.truncate(r.below(len) as usize);
            }
            3 => {
                let i = r.below(len) as usize;
                b[i] = *r.pick(&[0xC0u8, 0xC1, 0xFF, 0x40, 0x80, 0x3F, 0x00]);
            }
            4 => {
                // splice: copy a window somewhere else
                let i = r.below(len) as usize;
                let j = r.below(len) as usize;
                let n = (r.below(16) as usize).min(b.len() - i.max(j));
                for k in 0..n {
                    b[j + k] = b[i + k];
                }
            }
            5 => {
                let i = r.below(len + 1) as usize;
                let k = r.below(6) as usize;
                let extra = r.bytes(k);
                for (k, x) in extra.into_iter().enumerate() {
                    b.insert(i + k, x);
                }
            }
            _ => {
                // lie in a header count
                if b.len() >= 12 {
                    let f = 4 + 2 * r.below(4) as usize;
                    b[f + 1] = b[f + 1].wrapping_add(r.range(1, 3) as u8);
                }
            }
        }
    }
    b
}

/// Hostile packets from a small grammar: pointer graphs, lying counts and
/// RDLENGTHs, long / bad labels.
fn grammar(r: &mut Rng) -> Vec<u8> {
    let an = r.range(1, 3) as u16;
    let lie = match r.below(4) {
        0 => an + r.range(1, 300) as u16,
        1 => an.saturating_sub(1),
        _ => an,
    };
    let mut b = header(if r.chance(3, 4) { 0x8400 } else { 0 }, 0, lie, 0, 0);
    for _ in 0..an {
        let start = b.len();
        // owner name
        match r.below(9) {
            0 => b.extend_from_slice(&[0xC0, start as u8]), // self pointer
            1 => b.extend_from_slice(&[0xC0, (start + 2) as u8]), // forward
            2 => b.extend_from_slice(&[1, b'x', 0xC0, 12]), // label + back pointer to first name
            3 => {
                // label then pointer to a place before `start` that walks forward onto a pointer again
                b.extend_from_slice(&[1, b'y', 0xC0, (start.saturating_sub(2)) as u8]);
            }
            4 => b.extend_from_slice(&[0xC0, r.below(12) as u8]), // into the header
            5 => {
                let n = r.range(60, 66) as u8;
                b.push(n);
                b.extend(std::iter::repeat(b'L').take((n & 0x3F) as usize));
                b.push(0);
            }
            6 => b.extend_from_slice(&[2, 0xC3, 0x28, 0]), // invalid UTF-8 label
            7 => {
                // chain of pointers, each to the previous one
                let base = b.len();
                b.extend_from_slice(&[1, b'c', 0]);
                let mut prev = base;
                for _ in 0..r.range(1, 20) {
                    let here = b.len();
                    b.extend_from_slice(&[0xC0 | ((prev >> 8) as u8), prev as u8]);
                    prev = here;
                }
            }
            _ => {
                let nm = rand_name(r);
                let mut w = wire::Writer::new(false);
                w.buf.clear();
                w.name(&nm);
                b.extend_from_slice(&w.buf);
            }
        }
        let ty = *r.pick(&[1u16, 12, 13, 16, 28, 33, 47, 5, 99]);
        b.extend_from_slice(&ty.to_be_bytes());
        b.extend_from_slice(&[if r.chance(1, 2) { 0x80 } else { 0 }, 1]);
        b.extend_from_slice(&(if r.chance(1, 3) { 0u32 } else { r.next() as u32 }).to_be_bytes());
        // rdata
        let mut rd: Vec<u8> = match ty {
            1 => r.bytes(4),
            28 => r.bytes(16),
            12 | 5 => match r.below(4) {
                0 => vec![0xC0, (b.len() + 2) as u8], // pointer to itself (rdata offset)
                1 => vec![0xC0, 12],
                2 => vec![1, b'p', 0xC0, start as u8], // into the owner name
                _ => vec![1, b'p', 0],
            },
            33 => {
                let mut v = r.bytes(6);
                v.extend_from_slice(if r.chance(1, 2) { &[1, b'h', 0] } else { &[0xC0, 12] });
                v
            }
            13 => match r.below(4) {
                0 => vec![],
                1 => vec![0],
                2 => vec![1, b'c', 1, b'o'],
                _ => vec![5, b'c'],
            },
            47 => {
                let mut v = vec![1, b'n', 0, 0];
                let n = r.below(35) as u8;
                v.push(n);
                v.extend(r.bytes(n as usize));
                v
            }
            _ => {
                let n = r.below(12) as usize;
                r.bytes(n)
            }
        };
        let rl = match r.below(5) {
            0 => rd.len().saturating_sub(1),
            1 => rd.len() + 1,
            2 => r.below(70000) as usize % 65536,
            _ => rd.len(),
        };
        b.extend_from_slice(&(rl as u16).to_be_bytes());
        if r.chance(1, 8) {
            rd.truncate(rd.len() / 2);
        }
        b.extend_from_slice(&rd);
    }
    b
}

pub fn generated(seed: u64, n_random: usize, n_mutate: usize, n_grammar: usize, n_big: usize) -> Vec<Case> {
    let mut r = Rng::new(seed);
    let mut out = Vec::new();
    // section counts that promise far more than the datagram holds (memory must follow the datagram, not the header)
    for sec in 0..4usize {
        for count in [1u16, 255, 4096, 65535] {
            for body in [0usize, 1, 11, 40] {
                for qr in [0u16, 0x8400] {
                    let mut c = [0u16; 4];
                    c[sec] = count;
                    let mut b = header(qr, c[0], c[1], c[2], c[3]);
                    b.extend(std::iter::repeat(0u8).take(body));
                    out.push(Case { kind: "counts", bytes: b });
                }
            }
        }
    }
    for i in 0..n_random {
        let len = match i % 4 {
            0 => r.below(13) as usize,
            1 => r.range(12, 80) as usize,
            2 => r.range(12, 600) as usize,
            _ => r.range(12, 2000) as usize,
        };
        let mut b = r.bytes(len);
        if len >= 12 && r.chance(3, 4) {
            // keep the section counts small so that the body is actually read
            for f in [4usize, 6, 8, 10] {
                b[f] = 0;
                b[f + 1] = r.below(4) as u8;
            }
        }
        out.push(Case { kind: "random", bytes: b });
    }
    for _ in 0..n_mutate {
        let m = rand_valid_msg(&mut r);
        let b = wire::build(&m, r.chance(2, 3));
        if r.chance(1, 5) {
            out.push(Case { kind: "valid", bytes: b });
        } else {
            out.push(Case { kind: "mutate", bytes: mutate(&mut r, b) });
        }
    }
    for _ in 0..n_grammar {
        out.push(Case { kind: "grammar", bytes: grammar(&mut r) });
    }
    for i in 0..n_big {
        // datagrams near the size limit: many records, random tail, uniform noise
        let b = match i % 3 {
            0 => {
                let mut m = Msg::default();
                m.flags = 0x8400;
                let target = 9000 - r.below(300) as usize;
                let mut sz = 12;
                while sz < target {
                    let rr = rand_rr(&mut r);
                    sz += rr.name.wire_len() + 40;
                    m.answers.push(rr);
                }
                let mut b = wire::build(&m, true);
                b.truncate(9000);
                b
            }
            1 => r.bytes(9000),
            _ => {
                let m = rand_valid_msg(&mut r);
                let mut b = wire::build(&m, true);
                let pad = 9000usize.saturating_sub(b.len());
                b.extend(r.bytes(pad));
                b
            }
        };
        out.push(Case { kind: "big", bytes: b });
    }
    out
}

/// Runs all cases through worker processes, writes the trace, returns
/// per-kind / per-outcome counts.
pub fn drive(cases: Vec<Case>, out_path: &str, workers: usize) -> Value {
    let n = cases.len();
    let chunks: Vec<Vec<(usize, Case)>> = {
        let mut v: Vec<Vec<(usize, Case)>> = (0..workers).map(|_| Vec::new()).collect();
        for (i, c) in cases.into_iter().enumerate() {
            v[i % workers].push((i, c));
        }
        v
    };
    let handles: Vec<_> = chunks
        .into_iter()
        .map(|chunk| {
            std::thread::spawn(move || {
                let mut w = spawn_worker();
                let mut res = Vec::new();
                // a decoder that hangs costs a watchdog period per case: a handful of hangs per worker is verdict
                // enough, the rest of this worker's share is left out (the summary's case count says so)
                let mut hangs = 0;
                for (i, c) in chunk {
                    if hangs >= 4 {
                        break;
                    }
                    let mut v = run_one(&mut w, &c.bytes);
                    if v["out"] == "hang" {
                        hangs += 1;
                    }
                    let o = v.as_object_mut().unwrap();
                    o.insert("e".into(), json!("decode"));
                    o.insert("id".into(), json!(i));
                    o.insert("kind".into(), json!(c.kind));
                    o.insert("b".into(), json!(c.bytes));
                    res.push((i, v));
                }
                let _ = w.child.kill();
                let _ = w.child.wait();
                res
            })
        })
        .collect();
    let mut all: Vec<(usize, Value)> = Vec::with_capacity(n);
    for h in handles {
        all.extend(h.join().expect("decode driver thread"));
    }
    all.sort_by_key(|(i, _)| *i);
    let mut f = std::io::BufWriter::new(std::fs::File::create(out_path).expect("create trace"));
    let mut counts: std::collections::BTreeMap<String, u64> = Default::default();
    let mut distinct = std::collections::HashSet::new();
    for (_, v) in &all {
        writeln!(f, "{}", v).unwrap();
        let k = format!("{}:{}", v["kind"].as_str().unwrap(), v["out"].as_str().unwrap());
        *counts.entry(k).or_default() += 1;
        if v["out"] == "ok" && (v["an"].as_array().map_or(0, |a| a.len()) + v["q"].as_array().map_or(0, |a| a.len()) + v["ar"].as_array().map_or(0, |a| a.len()) + v["ns"].as_array().map_or(0, |a| a.len())) > 0 {
            distinct.insert(v["b"].to_string());
        }
    }
    f.flush().unwrap();
    json!({"cases": all.len(), "cases_planned": n, "counts": counts, "ok_nonempty_distinct": distinct.len()})
}
