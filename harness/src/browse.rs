//! Driver families of the querier side (C03 C04 C05 C10q C11 C13 C17 C19 C20):
//! a real daemon browsing / resolving against *scripted* responders (so that
//! loss, duplication, delay, reordering, splitting and hostile mixes are under
//! the harness's control). Policy D: besides the daemon's own wake-ups the
//! harness steps it at every instant where a delivered record reaches 80 / 85 /
//! 90 / 95 / 100 % of its TTL and one second after every delivery, so that
//! "what happens at a due time" is judged here and "does it wake by itself" by
//! C12 (policy W).

use crate::respond::v6;
use crate::rng::Rng;
use crate::sim::*;
use crate::wire::{self, Msg, Name, RData, RR};
use serde_json::{json, Value};
use std::cmp::Reverse;
use std::collections::BinaryHeap;
use std::net::{IpAddr, Ipv6Addr, SocketAddr, SocketAddrV6};

#[derive(Clone, Debug)]
pub struct Remote {
    pub ty: Name,
    pub sub: Option<Name>,
    pub inst: Name,
    pub host: Name,
    pub port: u16,
    pub txt: Vec<u8>,
    pub addrs: Vec<IpAddr>,
    pub ttl_host: u32,
    pub ttl_other: u32,
    pub ifidx: u32,
    pub src: SocketAddr,
    pub answers: bool,
}

impl Remote {
    pub fn ptr(&self) -> RR {
        RR::new(self.ty.clone(), false, self.ttl_other, RData::Ptr(self.inst.clone()))
    }
    pub fn subptr(&self) -> Option<RR> {
        self.sub.as_ref().map(|s| RR::new(s.clone(), false, self.ttl_other, RData::Ptr(self.inst.clone())))
    }
    pub fn srv(&self) -> RR {
        RR::new(self.inst.clone(), true, self.ttl_host, RData::Srv { prio: 0, weight: 0, port: self.port, target: self.host.clone() })
    }
    pub fn txtrr(&self) -> RR {
        RR::new(self.inst.clone(), true, self.ttl_other, RData::Txt(self.txt.clone()))
    }
    pub fn addr_rrs(&self) -> Vec<RR> {
        self.addrs
            .iter()
            .map(|a| RR::new(self.host.clone(), true, self.ttl_host, match a {
                IpAddr::V4(x) => RData::A(x.octets()),
                IpAddr::V6(x) => RData::Aaaa(x.octets()),
            }))
            .collect()
    }
    pub fn all(&self) -> Vec<RR> {
        let mut v = vec![self.ptr()];
        v.extend(self.subptr());
        v.push(self.srv());
        v.push(self.txtrr());
        v.extend(self.addr_rrs());
        v
    }
}

#[derive(Clone, Debug)]
pub enum Act {
    Deliver { ifidx: u32, src: SocketAddr, msg: Msg, compress: bool },
    Browse(String, bool),
    StopBrowse(String),
    Verify(String, u64),
    Resolve(String, Option<u64>),
    StopResolve(String),
    Metrics,
    Tick,
    Register(crate::respond::Svc),
    Unregister(String),
    IpInterval(u32),
    SetIfs(Vec<IfSpec>),
    IfSelect(bool, crate::iface::Kind),
    Monitor,
    Shutdown,
    RegisterInfo(Box<mdns_sd::ServiceInfo>),
}

pub struct Runner {
    pub sim: Sim,
    pub d: usize,
    q: BinaryHeap<Reverse<(u64, u64)>>,
    acts: std::collections::HashMap<u64, Act>,
    seq: u64,
    pub remotes: Vec<Remote>,
    pub policy_d: bool,
    pub rng: Rng,
    pub answer_prob: (u64, u64),
    sent_seen: usize,
    pub max_iters: u64,
    /// deliver a datagram only if the host's interface table has the receiving interface up with an address of that family
    pub link_check: bool,
}

pub fn txt_bytes(props: &[(&str, Option<&[u8]>)]) -> Vec<u8> {
    let mut b = Vec::new();
    for (k, v) in props {
        let mut s = k.as_bytes().to_vec();
        if let Some(v) = v {
            s.push(b'=');
            s.extend_from_slice(v);
        }
        b.push(s.len() as u8);
        b.extend(s);
    }
    if b.is_empty() {
        b.push(0);
    }
    b
}

impl Runner {
    pub fn new(sim: Sim, d: usize, rng: Rng, policy_d: bool) -> Runner {
        Runner {
            sim,
            d,
            q: BinaryHeap::new(),
            acts: Default::default(),
            seq: 0,
            remotes: vec![],
            policy_d,
            rng,
            answer_prob: (1, 2),
            sent_seen: 0,
            max_iters: 4000,
            link_check: false,
        }
    }

    pub fn at(&mut self, t: u64, a: Act) {
        self.seq += 1;
        self.acts.insert(self.seq, a);
        self.q.push(Reverse((t, self.seq)));
    }

    fn schedule_due_ticks(&mut self, t: u64, m: &Msg) {
        if !self.policy_d {
            return;
        }
        self.at(t + 1000, Act::Tick);
        let mut ttls: Vec<u32> = m.answers.iter().chain(m.authorities.iter()).chain(m.additionals.iter()).map(|r| r.ttl).collect();
        ttls.sort();
        ttls.dedup();
        for ttl in ttls {
            let life = 1000 * ttl.max(1) as u64;
            if life > 40_000_000 {
                continue;
            }
            for pct in [80u64, 85, 90, 95, 100] {
                self.at(t + life * pct / 100, Act::Tick);
            }
        }
    }

    fn perform(&mut self, a: Act) {
        let d = self.d;
        match a {
            Act::Deliver { ifidx, src, msg, compress } => {
                if self.link_check {
                    let host = self.sim.daemons[d].host;
                    let there = self.sim.hosts[host].iter().any(|i| i.index == ifidx && i.up && i.addrs.iter().any(|(a, _)| a.is_ipv4() == src.is_ipv4()));
                    if !there {
                        return;
                    }
                }
                let t = self.sim.t();
                self.schedule_due_ticks(t, &msg);
                self.sim.deliver(d, ifidx, src, &msg, compress);
            }
            Act::Browse(ty, cache_only) => {
                self.sim.browse(d, &ty, cache_only);
            }
            Act::StopBrowse(ty) => self.sim.stop_browse(d, &ty),
            Act::Verify(inst, to) => {
                let t = self.sim.t();
                if self.policy_d {
                    self.at(t + to, Act::Tick);
                    self.at(t + 1000, Act::Tick);
                }
                self.sim.verify(d, &inst, to)
            }
            Act::Resolve(h, to) => {
                let t = self.sim.t();
                if let (true, Some(x)) = (self.policy_d, to) {
                    self.at(t + x, Act::Tick);
                }
                self.sim.resolve_hostname(d, &h, to);
            }
            Act::StopResolve(h) => self.sim.stop_resolve_hostname(d, &h),
            Act::Metrics => {
                self.sim.get_metrics(d);
            }
            Act::Tick => {}
            Act::Register(sv) => {
                self.sim.register(d, sv.info());
            }
            Act::Unregister(n) => {
                self.sim.unregister(d, &n);
            }
            Act::IpInterval(secs) => self.sim.set_ip_check_interval(d, secs),
            Act::SetIfs(specs) => {
                let host = self.sim.daemons[d].host;
                self.sim.set_ifs(host, specs);
            }
            Act::IfSelect(en, kind) => {
                let j = kind.to_json();
                self.sim.if_select(d, en, kind.to_ifkind(), j);
            }
            Act::Monitor => {
                self.sim.monitor(d);
            }
            Act::RegisterInfo(info) => {
                self.sim.register(d, *info);
            }
            Act::Shutdown => {
                self.sim.shutdown(d);
            }
        }
    }

    /// Scripted responders answer the daemon's own queries (refresh, follow-up,
    /// browse) with some probability and a small delay.
    fn responders_react(&mut self) {
        let new: Vec<(usize, u32, bool, bool, Msg)> = self.sim.sent_log[self.sent_seen..].to_vec();
        self.sent_seen = self.sim.sent_log.len();
        let t = self.sim.t();
        for (_, ifidx, _v4, _mc, m) in new {
            if m.is_response() {
                continue;
            }
            for rm in self.remotes.clone() {
                if !rm.answers || rm.ifidx != ifidx {
                    continue;
                }
                let mut ans: Vec<RR> = vec![];
                let mut add: Vec<RR> = vec![];
                for q in &m.questions {
                    let qn = q.name.lower();
                    if q.ty == wire::T_PTR && (qn == rm.ty.lower() || rm.sub.as_ref().map_or(false, |s| s.lower() == qn)) {
                        // known-answer suppression on the responder side
                        let known = m.answers.iter().any(|k| k.ty == wire::T_PTR && k.rdata == RData::Ptr(rm.inst.clone()) && k.ttl > rm.ttl_other / 2);
                        if !known {
                            ans.push(if qn == rm.ty.lower() { rm.ptr() } else { rm.subptr().unwrap() });
                            add.push(rm.srv());
                            add.push(rm.txtrr());
                            add.extend(rm.addr_rrs());
                        }
                    }
                    if qn == rm.inst.lower() {
                        if q.ty == wire::T_SRV || q.ty == wire::T_ANY {
                            ans.push(rm.srv());
                        }
                        if q.ty == wire::T_TXT || q.ty == wire::T_ANY {
                            ans.push(rm.txtrr());
                        }
                    }
                    if qn == rm.host.lower() {
                        for a in rm.addr_rrs() {
                            if q.ty == wire::T_ANY || q.ty == a.ty {
                                ans.push(a);
                            }
                        }
                    }
                }
                if ans.is_empty() {
                    continue;
                }
                let (n, dd) = self.answer_prob;
                if !self.rng.chance(n, dd) {
                    continue;
                }
                let mut msg = wire::response(ans);
                msg.additionals = add;
                let delay = self.rng.range(20, 120);
                self.at(t + delay, Act::Deliver { ifidx, src: rm.src, msg, compress: true });
            }
        }
    }

    pub fn run_until(&mut self, t_end: u64) {
        let mut iters = 0u64;
        loop {
            self.sim.settle(60);
            self.responders_react();
            let nq = self.q.peek().map(|Reverse((t, _))| *t);
            let nw = self.sim.next_wake();
            let next = match (nq, nw) {
                (Some(a), Some(b)) => Some(a.min(b)),
                (a, b) => a.or(b),
            };
            let Some(next) = next else {
                self.sim.advance_to(t_end, "script");
                return;
            };
            if next > t_end {
                self.sim.advance_to(t_end, "script");
                return;
            }
            if next > self.sim.t() {
                self.sim.advance_to(next, if Some(next) == nw { "wake" } else { "due" });
            } else if nq.map_or(true, |a| a > self.sim.t()) {
                // a wake-up that is not in the future although the daemon was just stepped: spinning
                let t = self.sim.t() + 1;
                self.sim.advance_to(t, "spin");
            }
            // perform every action due now, then one iteration
            let mut did = false;
            while let Some(Reverse((t, id))) = self.q.peek().cloned() {
                if t > self.sim.t() {
                    break;
                }
                self.q.pop();
                if let Some(a) = self.acts.remove(&id) {
                    self.perform(a);
                    did = true;
                }
            }
            if did {
                self.sim.step(self.d);
            }
            iters += 1;
            if iters > self.max_iters || self.sim.hung || !self.sim.daemons[self.d].alive || self.sim.idle_streak >= 40 {
                return;
            }
        }
    }
}

// ---------------------------------------------------------------------------
// scenario generation
// ---------------------------------------------------------------------------

pub fn inst_labels() -> Vec<&'static str> {
    vec!["Printer", "My.Printer", "back\\slash", "trail\\", "Caf\u{e9}", "a b", "x.y.z", "UPPER", "n1"]
}

fn peer(ifc: &IfSpec, k: u8, want_v4: bool) -> Option<(IpAddr, SocketAddr)> {
    let (a, _) = ifc.addrs.iter().find(|(a, _)| a.is_ipv4() == want_v4)?;
    Some(match a {
        IpAddr::V4(x) => {
            let o = x.octets();
            (v4(o[0], o[1], o[2], 100 + k), sock4(o[0], o[1], o[2], 100 + k, 5353))
        }
        IpAddr::V6(x) => {
            let mut s = x.segments();
            s[7] = 0x100 + k as u16;
            let ip = Ipv6Addr::from(s);
            (IpAddr::V6(ip), SocketAddr::V6(SocketAddrV6::new(ip, 5353, 0, ifc.index)))
        }
    })
}

pub fn gen_remote(r: &mut Rng, ifs: &[IfSpec], k: u8, types: &[&str], ttls: &[u32]) -> Remote {
    let ifc = r.pick(ifs).clone();
    let tyname = *r.pick(types);
    let ty = Name::from_escaped(tyname);
    let sub = if r.chance(1, 5) { let mut l = vec![b"_color".to_vec(), b"_sub".to_vec()]; l.extend(ty.0.clone()); Some(Name(l)) } else { None };
    let labels = inst_labels();
    let lab = if r.chance(1, 12) { "x".repeat(63) } else { format!("{}{}", r.pick(&labels), k) };
    let mut il = vec![lab.into_bytes()];
    il.extend(ty.0.clone());
    let hostl = *r.pick(&["prn", "Host", "box.lan", "NAS"]);
    let host = Name(vec![format!("{}{}", hostl, k).into_bytes(), b"local".to_vec()]);
    let want_v4 = ifc.addrs.iter().any(|(a, _)| a.is_ipv4());
    let (ip, src) = peer(&ifc, k, want_v4).unwrap();
    let mut addrs = vec![ip];
    if r.chance(1, 3) {
        if let Some((ip2, _)) = peer(&ifc, k + 50, !want_v4) {
            addrs.push(ip2);
        } else if let IpAddr::V4(x) = ip {
            let o = x.octets();
            addrs.push(v4(o[0], o[1], o[2], 150 + k));
        }
    }
    let v: Vec<u8> = vec![0xff, 0x00, b'='];
    let txt = match r.below(4) {
        0 => vec![0u8],
        1 => txt_bytes(&[("path", Some(b"/")), ("Flag", None), ("PATH", Some(b"dup"))]),
        2 => txt_bytes(&[("bin", Some(&v[..])), ("e", Some(b""))]),
        _ => txt_bytes(&[("k", Some(b"v"))]),
    };
    let th = *r.pick(ttls);
    let to = if r.chance(1, 2) { th } else { *r.pick(ttls) };
    Remote { ty, sub, inst: Name(il), host, port: 600 + k as u16, txt, addrs, ttl_host: th, ttl_other: to.max(th), ifidx: ifc.index, src, answers: r.chance(2, 3) }
}

fn foreign_rr(r: &mut Rng) -> RR {
    match r.below(4) {
        0 => RR::new(Name::from_labels(&["_other", "_udp", "local"]), false, 4500, RData::Ptr(Name::from_labels(&["thing", "_other", "_udp", "local"]))),
        1 => RR::new(Name::from_labels(&["thing", "_other", "_udp", "local"]), true, 120, RData::Srv { prio: 0, weight: 0, port: 9, target: Name::from_labels(&["elsewhere", "local"]) }),
        2 => RR::new(Name::from_labels(&["elsewhere", "local"]), true, 120, RData::A([198, 51, 100, r.below(200) as u8])),
        _ => RR::new(Name::from_labels(&["thing", "_other", "_udp", "local"]), true, 4500, RData::Txt(vec![0])),
    }
}

/// Splits the record set into 1..=4 datagrams in random order, with optional
/// duplicates and foreign records; returns the messages in sending order.
pub fn split_announce(r: &mut Rng, recs: Vec<RR>, allow_foreign: bool) -> Vec<Msg> {
    let mut recs = recs;
    r.shuffle(&mut recs);
    if r.chance(1, 3) && !recs.is_empty() {
        let dup = r.pick(&recs).clone();
        let pos = r.below(recs.len() as u64 + 1) as usize;
        recs.insert(pos, dup);
    }
    let parts = r.range(1, 4.min(recs.len().max(1) as u64)) as usize;
    let mut msgs: Vec<Msg> = (0..parts).map(|_| wire::response(vec![])).collect();
    for (i, rr) in recs.into_iter().enumerate() {
        let k = if i < parts { i } else { r.below(parts as u64) as usize };
        // PTR / some others as answers, the rest as additionals sometimes
        if rr.ty != wire::T_PTR && r.chance(1, 3) {
            msgs[k].additionals.push(rr);
        } else {
            msgs[k].answers.push(rr);
        }
    }
    if allow_foreign && r.chance(1, 3) {
        let k = r.below(parts as u64) as usize;
        let f = foreign_rr(r);
        // never as a PTR answer of a packet without one of ours (that would make
        // the packet "somebody else's answer")
        if f.ty == wire::T_PTR && !msgs[k].answers.iter().any(|x| x.ty == wire::T_PTR) {
            msgs[k].additionals.push(f);
        } else {
            msgs[k].additionals.push(f);
        }
    }
    msgs.retain(|m| !m.answers.is_empty() || !m.additionals.is_empty());
    for m in msgs.iter_mut() {
        if m.answers.is_empty() {
            // a response without answers is not sent by real responders: move one up
            let rr = m.additionals.remove(0);
            m.answers.push(rr);
        }
    }
    msgs
}

pub fn topology(r: &mut Rng) -> Vec<IfSpec> {
    let mut v = vec![];
    let a1: Vec<(IpAddr, u8)> = match r.below(4) {
        0 | 1 => vec![(v4(192, 168, 1, 10), 24)],
        2 => vec![(v4(192, 168, 1, 10), 24), (v6("fe80::1:10"), 64)],
        _ => vec![(v6("fe80::1:10"), 64)],
    };
    v.push(IfSpec { name: "eth0".into(), index: 2, addrs: a1, up: true });
    if r.chance(1, 3) {
        v.push(IfSpec { name: "wlan0".into(), index: 3, addrs: vec![(v4(172, 16, 5, 10), 20)], up: true });
    }
    v
}

/// Family `browse`: C03 C04 C05 C10q C11 C13 (browse side) C19 C20.
pub fn scenario(id: u64, seed: u64, thorough: bool, family: &str) -> Vec<Value> {
    let mut r = Rng::new(seed.wrapping_mul(7919).wrapping_add(id).wrapping_add(family.len() as u64 * 977));
    let ifs = topology(&mut r);
    let links: Vec<Vec<(usize, u32)>> = ifs.iter().map(|i| vec![(0usize, i.index)]).collect();
    let mut sim = Sim::new(json!({"id": id, "family": family}), seed ^ id, vec![ifs.clone()], links);
    let d = sim.spawn(0);
    let types = ["_ipp._tcp.local.", "_http._tcp.local."];
    let small_ttls: Vec<u32> = vec![1, 2, 3, 5, 10, 20];
    let mixed_ttls: Vec<u32> = vec![2, 10, 60, 120, 4500];
    let ttls = if r.chance(2, 3) { small_ttls } else { mixed_ttls };
    // family `browsew`: the same histories under policy W (the daemon is woken only when it asks to be)
    let mut run = Runner::new(sim, d, r.fork(1), family != "browsew");
    let nrem = r.range(1, 3) as u8;
    for k in 0..nrem {
        let rm = gen_remote(&mut r, &ifs, k, &types, &ttls);
        run.remotes.push(rm);
    }
    run.answer_prob = *r.pick(&[(0u64, 1u64), (1, 2), (1, 1)]);
    // the browse(s)
    let browsed: Vec<String> = if r.chance(1, 4) { types.iter().map(|s| s.to_string()).collect() } else { vec![run.remotes[0].ty.unescaped()] };
    let t_browse = r.below(1500);
    for ty in &browsed {
        run.at(t_browse, Act::Browse(ty.clone(), false));
    }
    if r.chance(1, 8) {
        if let Some(s) = run.remotes[0].sub.clone() {
            run.at(t_browse + 10, Act::Browse(s.unescaped(), false));
        }
    }
    if r.chance(1, 5) {
        // the same type is browsed a second time while the first search is open (the new channel takes over)
        run.at(t_browse + r.range(200, 5000), Act::Browse(browsed[0].clone(), false));
    }
    // directed opening (every fifth scenario): two instances of a browsed type that nothing else in the scenario touches are
    // first heard of through their PTR alone, a few milliseconds apart; one is then announced in full, the other stays silent
    // (nobody answers for it) - the daemon owes it its follow-up queries all the same, whatever happens to its neighbour
    if id % 5 == 2 {
        let base = run.remotes[0].clone();
        let tyn = Name::from_escaped(&browsed[0]);
        let mk = |lab: &str, hostlab: &str| -> Remote {
            let mut x = base.clone();
            let mut il = vec![lab.as_bytes().to_vec()];
            il.extend(tyn.0.clone());
            x.ty = tyn.clone();
            x.sub = None;
            x.inst = Name(il);
            x.host = Name(vec![hostlab.as_bytes().to_vec(), b"local".to_vec()]);
            x.ttl_host = 120;
            x.ttl_other = 120;
            x
        };
        let (a, b) = (mk("quiet-one", "quiet1"), mk("quiet-two", "quiet2"));
        let t0 = t_browse + 300;
        run.at(t0, Act::Deliver { ifidx: a.ifidx, src: a.src, msg: wire::response(vec![a.ptr()]), compress: true });
        run.at(t0 + 40, Act::Deliver { ifidx: b.ifidx, src: b.src, msg: wire::response(vec![b.ptr()]), compress: true });
        let rest: Vec<RR> = vec![b.srv(), b.txtrr()].into_iter().chain(b.addr_rrs()).collect();
        run.at(t0 + 240, Act::Deliver { ifidx: b.ifidx, src: b.src, msg: wire::response(rest), compress: true });
    }
    // announcements, updates, goodbyes over the horizon
    let horizon: u64 = if thorough { 120_000 } else { 45_000 };
    let mut t = r.below(2500);
    let nev = if thorough { 30 } else { 12 };
    for _ in 0..nev {
        let k = r.below(run.remotes.len() as u64) as usize;
        let rm = run.remotes[k].clone();
        match r.below(12) {
            0..=4 => {
                // (re-)announce, split / shuffled / duplicated / with loss
                let msgs = split_announce(&mut r, rm.all(), true);
                let mut tt = t;
                for m in msgs {
                    if r.chance(1, 8) {
                        continue; // lost
                    }
                    tt += r.below(150);
                    let c = r.chance(1, 2);
                    run.at(tt, Act::Deliver { ifidx: rm.ifidx, src: rm.src, msg: m.clone(), compress: c });
                    if r.chance(1, 8) {
                        run.at(tt + r.below(300), Act::Deliver { ifidx: rm.ifidx, src: rm.src, msg: m, compress: c });
                    }
                }
            }
            5 => {
                // update: new port / TXT / address, flush bits as a real responder sets them
                let mut n = rm.clone();
                match r.below(3) {
                    0 => n.port += 1000,
                    1 => n.txt = txt_bytes(&[("rev", Some(format!("{}", r.below(99)).as_bytes()))]),
                    _ => {
                        if let IpAddr::V4(x) = n.addrs[0] {
                            let o = x.octets();
                            n.addrs[0] = v4(o[0], o[1], o[2], o[3].wrapping_add(7));
                        }
                    }
                }
                run.remotes[k] = n.clone();
                let mut recs: Vec<RR> = if r.chance(1, 2) { n.all() } else { vec![n.srv(), n.txtrr()].into_iter().chain(n.addr_rrs()).collect() };
                if n.addrs[0] != rm.addrs[0] && r.chance(1, 2) {
                    // the old address is withdrawn with a goodbye in the same packet
                    let mut bye = rm.addr_rrs().remove(0);
                    bye.ttl = 0;
                    let pos = r.below(recs.len() as u64 + 1) as usize;
                    recs.insert(pos, bye);
                }
                let m = wire::response(recs);
                run.at(t, Act::Deliver { ifidx: n.ifidx, src: n.src, msg: m, compress: true });
            }
            6 | 7 => {
                // goodbye: everything, or only the PTR; sometimes lost or duplicated
                let mut recs = if r.chance(1, 2) { rm.all() } else { vec![rm.ptr()] };
                for x in recs.iter_mut() {
                    x.ttl = 0;
                }
                let m = wire::response(recs);
                if !r.chance(1, 6) {
                    run.at(t, Act::Deliver { ifidx: rm.ifidx, src: rm.src, msg: m.clone(), compress: true });
                }
                if r.chance(1, 4) {
                    run.at(t + 120, Act::Deliver { ifidx: rm.ifidx, src: rm.src, msg: m, compress: true });
                }
            }
            8 => {
                let inst = rm.inst.unescaped();
                run.at(t, Act::Verify(inst, *r.pick(&[100u64, 700, 1000, 1500, 2500, 3300, 10_000, 30_000])));
            }
            9 => {
                // a packet that is somebody else's answer (PTR of a type nobody browses) carrying our records
                let mut m = wire::response(vec![foreign_rr(&mut r)]);
                m.answers[0] = RR::new(Name::from_labels(&["_other", "_udp", "local"]), false, 4500, RData::Ptr(Name::from_labels(&["thing", "_other", "_udp", "local"])));
                m.additionals = vec![rm.srv(), rm.txtrr()];
                m.additionals.extend(rm.addr_rrs());
                run.at(t, Act::Deliver { ifidx: rm.ifidx, src: rm.src, msg: m, compress: true });
            }
            10 => {
                if r.chance(1, 2) {
                    run.at(t, Act::Metrics);
                } else {
                    // an address with a short TTL, and in its last second another address of the same host with
                    // the cache-flush bit: the first one still ends at its own TTL
                    let ttl = *r.pick(&[2u32, 3, 5]);
                    let host = rm.host.clone();
                    let a1 = match rm.addrs[0] { IpAddr::V4(x) => { let o = x.octets(); [o[0], o[1], o[2], 210] } _ => [192, 168, 1, 210] };
                    let a2 = [a1[0], a1[1], a1[2], 211];
                    let m1 = wire::response(vec![RR::new(host.clone(), true, ttl, RData::A(a1))]);
                    let m2 = wire::response(vec![RR::new(host.clone(), true, 120, RData::A(a2))]);
                    run.at(t, Act::Deliver { ifidx: rm.ifidx, src: rm.src, msg: m1, compress: true });
                    run.at(t + 1000 * ttl as u64 - r.range(100, 900), Act::Deliver { ifidx: rm.ifidx, src: rm.src, msg: m2, compress: true });
                }
            }
            _ => {
                // responder goes silent / comes back
                run.remotes[k].answers = !run.remotes[k].answers;
            }
        }
        t += r.range(50, horizon / nev as u64 * 2);
    }
    if r.chance(1, 3) {
        let ty = browsed[0].clone();
        let ts = r.range(2000, horizon);
        run.at(ts, Act::StopBrowse(ty.clone()));
        if r.chance(1, 2) {
            run.at(ts + r.range(10, 5000), Act::Browse(ty, r.chance(1, 4)));
        }
    }
    if std::env::var("VERIF_DEBUG_METRICS").is_ok() {
        let mut tm = 500;
        while tm < horizon {
            run.at(tm, Act::Metrics);
            tm += 1000;
        }
    }
    run.at(horizon, Act::Metrics);
    run.run_until(horizon + 100);
    run.sim.finish()
}

fn mixcase(r: &mut Rng, s: &str) -> String {
    match r.below(4) {
        0 => s.to_string(),
        1 => s.to_uppercase(),
        2 => s.to_lowercase(),
        _ => s.chars().enumerate().map(|(i, c)| if i % 2 == 0 { c.to_ascii_uppercase() } else { c.to_ascii_lowercase() }).collect(),
    }
}

/// Family `resolve` (C17, C13 resolver side, C19 resolver schedule): hostname
/// resolution with every letter-case variant on the caller and responder side,
/// changing address sets, withdrawal by goodbye and by TTL, lost / late
/// answers, timeouts from 1 ms to minutes, stop, several resolvers at once.
pub fn scenario_resolve(id: u64, seed: u64, thorough: bool) -> Vec<Value> {
    scenario_resolve_p(id, seed, thorough, true)
}

/// `resolvew`: the same histories under policy W.
pub fn scenario_resolve_p(id: u64, seed: u64, thorough: bool, policy_d: bool) -> Vec<Value> {
    let mut r = Rng::new(seed.wrapping_mul(104729).wrapping_add(id));
    let ifs = topology(&mut r);
    let links: Vec<Vec<(usize, u32)>> = ifs.iter().map(|i| vec![(0usize, i.index)]).collect();
    let mut sim = Sim::new(json!({"id": id, "family": if policy_d { "resolve" } else { "resolvew" }}), seed ^ id, vec![ifs.clone()], links);
    let d = sim.spawn(0);
    let mut run = Runner::new(sim, d, r.fork(2), policy_d);
    let horizon: u64 = if thorough { 90_000 } else { 40_000 };
    let hosts = ["Alpha.local.", "beta-Box.local."];
    let nh = r.range(1, 2) as usize;
    let ttls: Vec<u32> = if r.chance(2, 3) { vec![1, 2, 5, 10] } else { vec![10, 60, 120] };
    for (k, h) in hosts.iter().enumerate().take(nh) {
        let t0 = r.below(2000);
        let to = match r.below(6) {
            0 => Some(1u64),
            1 => Some(r.range(100, 3000)),
            2 => Some(r.range(3000, 30_000)),
            _ => None,
        };
        // every third scenario: a deadline that falls exactly on an instant of the query schedule (1, 3, 7, 15 s after the call)
        let to = if id % 3 == 0 && to.is_some() { Some([1000u64, 3000, 7000, 15_000][((id / 3) % 4) as usize]) } else { to };
        let asked = mixcase(&mut r, h);
        run.at(t0, Act::Resolve(asked.clone(), to));
        if r.chance(1, 4) {
            let ts = t0 + r.range(500, horizon);
            run.at(ts, Act::StopResolve(mixcase(&mut r, h)));
            if r.chance(1, 2) {
                run.at(ts + r.range(100, 4000), Act::Resolve(mixcase(&mut r, h), None));
            }
        }
        // the responder for this host
        let ifc = r.pick(&ifs).clone();
        let want_v4 = ifc.addrs.iter().any(|(a, _)| a.is_ipv4());
        let (ip, src) = peer(&ifc, k as u8, want_v4).unwrap();
        let mut addrs = vec![ip];
        if let Some((ip2, _)) = peer(&ifc, k as u8 + 60, want_v4) {
            addrs.push(ip2);
        }
        let mut t = r.below(3000);
        let nev = if thorough { 24 } else { 10 };
        // most responders spell their name one way; some change the letter case between packets
        let fixed_case = if r.chance(4, 5) { Some(mixcase(&mut r, h)) } else { None };
        for _ in 0..nev {
            let spelled = Name::from_escaped(&fixed_case.clone().unwrap_or_else(|| mixcase(&mut r, h)));
            let ttl = *r.pick(&ttls);
            let pick: Vec<IpAddr> = addrs.iter().filter(|_| r.chance(2, 3)).cloned().collect();
            let mk = |ttl: u32, set: &[IpAddr]| -> Vec<RR> {
                set.iter().map(|a| RR::new(spelled.clone(), true, ttl, match a {
                    IpAddr::V4(x) => RData::A(x.octets()),
                    IpAddr::V6(x) => RData::Aaaa(x.octets()),
                })).collect()
            };
            match r.below(8) {
                0..=4 => {
                    if !pick.is_empty() && !r.chance(1, 8) {
                        run.at(t, Act::Deliver { ifidx: ifc.index, src, msg: wire::response(mk(ttl, &pick)), compress: true });
                    }
                }
                5 => {
                    if !pick.is_empty() {
                        run.at(t, Act::Deliver { ifidx: ifc.index, src, msg: wire::response(mk(0, &pick)), compress: true });
                    }
                }
                6 => {
                    // an address for another host in the same packet, and as additional; as in an ordinary announcement of a
                    // service on that host, a PTR of a type nobody browses comes first (the packet is for us all the same:
                    // it answers the host name being resolved)
                    let mut m = wire::response(mk(ttl, &addrs[..1]));
                    m.answers.insert(0, RR::new(Name::from_labels(&["_other", "_udp", "local"]), false, 4500,
                        RData::Ptr(Name::from_labels(&["thing", "_other", "_udp", "local"]))));
                    m.additionals.push(RR::new(Name::from_labels(&["other", "local"]), true, 120, RData::A([10, 1, 1, 1])));
                    run.at(t, Act::Deliver { ifidx: ifc.index, src, msg: m, compress: true });
                }
                _ => {
                    // address change: new address with cache-flush
                    if let IpAddr::V4(x) = addrs[0] {
                        let o = x.octets();
                        let old = addrs[0];
                        addrs[0] = v4(o[0], o[1], o[2], o[3].wrapping_add(3));
                        if r.chance(1, 2) {
                            run.at(t, Act::Deliver { ifidx: ifc.index, src, msg: wire::response(mk(ttl, &addrs[..1])), compress: true });
                        } else {
                            // the old address once more with a short TTL, and the new one (cache-flush) in its last second:
                            // the old one still ends at its own TTL
                            let short = *r.pick(&[2u32, 3, 5]);
                            run.at(t, Act::Deliver { ifidx: ifc.index, src, msg: wire::response(mk(short, &[old])), compress: true });
                            run.at(t + 1000 * short as u64 - r.range(100, 900), Act::Deliver { ifidx: ifc.index, src, msg: wire::response(mk(120, &addrs[..1])), compress: true });
                        }
                    }
                }
            }
            t += r.range(100, horizon / nev as u64 * 2);
        }
    }
    run.at(horizon, Act::Metrics);
    run.run_until(horizon + 100);
    run.sim.finish()
}

/// Family `flood` (C20): traffic nobody asked for - answers for types nobody
/// browses, SRV/TXT/address/NSEC without PTR, streams of distinct names (at
/// most 16 alive at a time), repeated announcements and goodbyes - with
/// searches started and stopped along the way; get_metrics sampled regularly
/// and after everything has expired.
pub fn scenario_flood(id: u64, seed: u64, thorough: bool) -> Vec<Value> {
    let mut r = Rng::new(seed.wrapping_mul(15485863).wrapping_add(id));
    let ifs = vec![IfSpec { name: "eth0".into(), index: 2, addrs: vec![(v4(192, 168, 1, 10), 24)], up: true }];
    let mut sim = Sim::new(json!({"id": id, "family": "flood"}), seed ^ id, vec![ifs.clone()], vec![vec![(0, 2)]]);
    let d = sim.spawn(0);
    let mut run = Runner::new(sim, d, r.fork(3), true);
    run.answer_prob = (0, 1);
    let horizon: u64 = if thorough { 600_000 } else { 150_000 };
    let src = sock4(192, 168, 1, 66, 5353);
    let browse_ty = "_ipp._tcp.local.";
    let ttl_pool: Vec<u32> = vec![2, 5, 10, 30];
    let mut t = 100u64;
    if r.chance(2, 3) {
        run.at(r.below(3000), Act::Browse(browse_ty.to_string(), false));
    }
    let stop_at = r.range(horizon / 3, horizon * 2 / 3);
    run.at(stop_at, Act::StopBrowse(browse_ty.to_string()));
    let mut serial = 0u32;
    while t < horizon * 3 / 4 {
        serial += 1;
        let ttl = *r.pick(&ttl_pool);
        let name = |k: &str, s: u32| Name(vec![format!("{}{}", k, s % 16 + (s / 16) * 100).into_bytes(), b"_ipp".to_vec(), b"_tcp".to_vec(), b"local".to_vec()]);
        let host = Name(vec![format!("h{}", serial).into_bytes(), b"local".to_vec()]);
        let m = match r.below(8) {
            0 => {
                // a full, browsed-type announcement (needed while the browse is open)
                let i = name("svc", serial);
                wire::response(vec![
                    RR::new(Name::from_escaped(browse_ty), false, ttl, RData::Ptr(i.clone())),
                    RR::new(i.clone(), true, ttl, RData::Srv { prio: 0, weight: 0, port: 1, target: host.clone() }),
                    RR::new(i, true, ttl, RData::Txt(vec![0])),
                    RR::new(host, true, ttl, RData::A([192, 168, 1, (serial % 200) as u8])),
                ])
            }
            1 => {
                // answers for a type nobody browses
                let ty = Name::from_labels(&["_nobody", "_udp", "local"]);
                let i = Name(vec![format!("x{}", serial).into_bytes(), b"_nobody".to_vec(), b"_udp".to_vec(), b"local".to_vec()]);
                let mut m = wire::response(vec![RR::new(ty, false, ttl, RData::Ptr(i.clone()))]);
                m.additionals = vec![
                    RR::new(i.clone(), true, ttl, RData::Srv { prio: 0, weight: 0, port: 2, target: host.clone() }),
                    RR::new(i, true, ttl, RData::Txt(vec![0])),
                    RR::new(host, true, ttl, RData::A([10, 0, 0, (serial % 200) as u8])),
                ];
                m
            }
            2 | 3 => {
                // SRV / TXT / address without any PTR
                let i = name("orphan", serial);
                wire::response(vec![
                    RR::new(i.clone(), true, ttl, RData::Srv { prio: 0, weight: 0, port: 3, target: host.clone() }),
                    RR::new(i, true, ttl, RData::Txt(vec![1, b'a'])),
                    RR::new(host, true, ttl, RData::A([10, 0, 1, (serial % 200) as u8])),
                ])
            }
            4 => {
                // NSEC (negative response)
                let i = name("neg", serial);
                wire::response(vec![RR::new(i.clone(), true, ttl, RData::Nsec { next: i, rest: vec![0, 1, 0x40] })])
            }
            5 | 6 => {
                // the same announcement over and over
                let i = name("same", 0);
                let h = Name::from_labels(&["samehost", "local"]);
                wire::response(vec![
                    RR::new(Name::from_escaped(browse_ty), false, 30, RData::Ptr(i.clone())),
                    RR::new(i.clone(), true, 30, RData::Srv { prio: 0, weight: 0, port: 5, target: h.clone() }),
                    RR::new(i, true, 30, RData::Txt(vec![0])),
                    RR::new(h, true, 30, RData::A([192, 168, 1, 99])),
                ])
            }
            _ => {
                // goodbye for something announced earlier
                let i = name("svc", serial.saturating_sub(3));
                wire::response(vec![RR::new(Name::from_escaped(browse_ty), false, 0, RData::Ptr(i))])
            }
        };
        run.at(t, Act::Deliver { ifidx: 2, src, msg: m, compress: true });
        t += r.range(50, 1500);
        if serial % 25 == 0 {
            run.at(t, Act::Metrics);
        }
    }
    // long after every TTL has passed, with all searches stopped
    run.at(horizon - 10, Act::Metrics);
    run.at(horizon, Act::Metrics);
    run.max_iters = 40_000;
    run.run_until(horizon + 100);
    run.sim.finish()
}

/// Family `silent` (C12): every kind of time-driven work is started, then the
/// network stays silent and the daemon is woken only when it asks to be
/// (policy W) over horizons from tens of seconds to hours; the interface-check
/// interval is left at its default, made very large, set to zero at start-up
/// or changed at run time (to zero, and from zero back to a value).
pub fn scenario_silent(id: u64, seed: u64, thorough: bool) -> Vec<Value> {
    let mut r = Rng::new(seed.wrapping_mul(49979687).wrapping_add(id));
    let ifs = vec![IfSpec { name: "eth0".into(), index: 2, addrs: vec![(v4(192, 168, 1, 10), 24)], up: true }];
    let mut sim = Sim::new(json!({"id": id, "family": "silent"}), seed ^ id, vec![ifs.clone()], vec![vec![(0, 2)]]);
    let d = sim.spawn(0);
    let mut run = Runner::new(sim, d, r.fork(4), false);
    run.answer_prob = (0, 1);
    let horizon: u64 = *r.pick(&[20_000u64, 60_000, 600_000, if thorough { 3 * 86_400_000 / 10 } else { 3_600_000 * 3 }]);
    // interface-check interval
    match r.below(6) {
        0 => run.at(0, Act::IpInterval(0)),
        1 => run.at(0, Act::IpInterval(100_000)),
        2 => run.at(r.range(1000, 9000), Act::IpInterval(0)),
        3 => {
            run.at(0, Act::IpInterval(0));
            run.at(r.range(1000, 9000), Act::IpInterval(2));
        }
        4 => run.at(r.range(1000, 9000), Act::IpInterval(1)),
        _ => {}
    }
    let src = sock4(192, 168, 1, 77, 5353);
    if r.chance(2, 3) {
        let sv = crate::respond::Svc { ty: "_http._tcp.local.".into(), inst: format!("Quiet{}", id % 7), host: "quiet.local.".into(),
            addrs: vec![v4(192, 168, 1, 10)], port: 80, props: vec![], probe: !r.chance(1, 5) };
        let t0 = r.below(3000);
        run.at(t0, Act::Register(sv.clone()));
        if r.chance(1, 3) {
            run.at(t0 + r.range(200, 8000), Act::Unregister(sv.fullname()));
        }
    }
    if r.chance(2, 3) {
        let t0 = r.below(3000);
        run.at(t0, Act::Browse("_ipp._tcp.local.".into(), false));
        // one announcement, then silence: refreshes, expiry and removal have to happen by themselves
        let ttl = *r.pick(&[2u32, 5, 10, 60, 120]);
        let rm = Remote { ty: Name::from_escaped("_ipp._tcp.local."), sub: None, inst: Name::from_labels(&["p1", "_ipp", "_tcp", "local"]),
            host: Name::from_labels(&["p1host", "local"]), port: 631, txt: vec![0], addrs: vec![v4(192, 168, 1, 77)], ttl_host: ttl,
            ttl_other: ttl * 2, ifidx: 2, src, answers: false };
        let ta = t0 + r.range(10, 4000);
        let recs = if r.chance(1, 4) { vec![rm.ptr()] } else { rm.all() };
        run.at(ta, Act::Deliver { ifidx: 2, src, msg: wire::response(recs), compress: true });
        if r.chance(1, 3) {
            run.at(ta + r.range(100, 3000), Act::Verify(rm.inst.unescaped(), *r.pick(&[500u64, 3000, 10_000])));
        }
        if r.chance(1, 4) {
            let mut g = vec![rm.ptr()];
            g[0].ttl = 0;
            run.at(ta + r.range(500, 5000), Act::Deliver { ifidx: 2, src, msg: wire::response(g), compress: true });
        }
        if r.chance(1, 4) {
            run.at(r.range(4000, horizon), Act::StopBrowse("_ipp._tcp.local.".into()));
        }
    }
    if r.chance(1, 2) {
        let to = *r.pick(&[None, Some(1500u64), Some(20_000)]);
        run.at(r.below(3000), Act::Resolve("Lonely.local.".into(), to));
        if r.chance(1, 2) {
            let m = wire::response(vec![RR::new(Name::from_labels(&["lonely", "local"]), true, *r.pick(&[2u32, 10, 120]), RData::A([192, 168, 1, 88]))]);
            run.at(r.range(100, 6000), Act::Deliver { ifidx: 2, src, msg: m, compress: true });
        }
    }
    run.max_iters = 60_000;
    run.run_until(horizon);
    run.sim.finish()
}
