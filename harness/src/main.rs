#![allow(dead_code)]
/// Heap use of one call, for "memory proportional to the datagram size" (C01): a counting wrapper around the system
/// allocator; counts only on the thread that armed it, for the duration of `measure`.
pub mod memcount {
    use std::alloc::{GlobalAlloc, Layout, System};
    use std::cell::Cell;
    thread_local! {
        static ARMED: Cell<bool> = const { Cell::new(false) };
        static CUR: Cell<isize> = const { Cell::new(0) };
        static PEAK: Cell<isize> = const { Cell::new(0) };
    }
    pub struct Counting;
    fn note(d: isize) {
        let _ = ARMED.try_with(|a| {
            if a.get() {
                let _ = CUR.try_with(|c| {
                    let v = c.get() + d;
                    c.set(v);
                    let _ = PEAK.try_with(|p| {
                        if v > p.get() {
                            p.set(v)
                        }
                    });
                });
            }
        });
    }
    unsafe impl GlobalAlloc for Counting {
        unsafe fn alloc(&self, l: Layout) -> *mut u8 {
            let p = System.alloc(l);
            if !p.is_null() {
                note(l.size() as isize);
            }
            p
        }
        unsafe fn alloc_zeroed(&self, l: Layout) -> *mut u8 {
            let p = System.alloc_zeroed(l);
            if !p.is_null() {
                note(l.size() as isize);
            }
            p
        }
        unsafe fn dealloc(&self, p: *mut u8, l: Layout) {
            System.dealloc(p, l);
            note(-(l.size() as isize));
        }
        unsafe fn realloc(&self, p: *mut u8, l: Layout, new_size: usize) -> *mut u8 {
            let q = System.realloc(p, l, new_size);
            if !q.is_null() {
                note(new_size as isize - l.size() as isize);
            }
            q
        }
    }
    /// Runs `f`; returns its result and the peak of (bytes allocated - bytes freed) by this thread during the call.
    pub fn measure<T>(f: impl FnOnce() -> T) -> (T, u64) {
        CUR.with(|c| c.set(0));
        PEAK.with(|p| p.set(0));
        ARMED.with(|a| a.set(true));
        let r = f();
        ARMED.with(|a| a.set(false));
        (r, PEAK.with(|p| p.get()).max(0) as u64)
    }
}
#[global_allocator]
static ALLOC: memcount::Counting = memcount::Counting;

mod browse;
mod cache;
mod compare;
mod conflict;
mod decode;
mod encode;
mod guard;
mod iface;
mod lifecycle;
mod respond;
mod rng;
mod sim;
mod smoke;
mod txt;
mod wire;

use serde_json::json;
use std::collections::HashMap;

fn args() -> (String, HashMap<String, String>) {
    let mut it = std::env::args().skip(1);
    let cmd = it.next().unwrap_or_default();
    let mut m = HashMap::new();
    let rest: Vec<String> = it.collect();
    let mut i = 0;
    while i < rest.len() {
        if let Some(k) = rest[i].strip_prefix("--") {
            let v = rest.get(i + 1).cloned().unwrap_or_default();
            m.insert(k.to_string(), v);
            i += 2;
        } else {
            i += 1;
        }
    }
    (cmd, m)
}

fn main() {
    let (cmd, a) = args();
    let seed: u64 = a.get("seed").and_then(|s| s.parse().ok()).unwrap_or(1);
    let thorough = a.get("tier").map(|s| s == "thorough").unwrap_or(false);
    let out = a.get("out").cloned().unwrap_or_else(|| "trace.ndjson".into());
    match cmd.as_str() {
        "decode-worker" => decode::worker_main(),
        "decode" => {
            let alphabet: Vec<u8> = vec![0x00, 0x01, 0x02, b'a', 0x3F, 0x40, 0xC0, 0x0C, 0x0D, 0x0F, 0xFF];
            let maxlen = a.get("maxlen").and_then(|s| s.parse().ok()).unwrap_or(if thorough { 4 } else { 3 });
            let mut cases = decode::enumerated(&alphabet, maxlen);
            // datagrams enumerated by TLC (MCDecodePtr: pointer structures; MCDecodeRR: RDLENGTH claims x RDATA)
            if let Some(path) = a.get("cases") {
                let text = std::fs::read_to_string(path).expect("cases file");
                for line in text.lines().filter(|l| !l.trim().is_empty()) {
                    let v: serde_json::Value = serde_json::from_str(line).expect("case json");
                    let bytes: Vec<u8> = v["b"].as_array().expect("b").iter().map(|x| x.as_u64().unwrap_or(0) as u8).collect();
                    cases.push(decode::Case { kind: "tlc", bytes });
                }
            }
            let scale = if thorough { 20 } else { 1 };
            cases.extend(decode::generated(seed, 1500 * scale, 2500 * scale, 2500 * scale, 12 * scale));
            let summary = decode::drive(cases, &out, 8);
            println!("{}", json!({"summary": summary, "alphabet": alphabet, "maxlen": maxlen}));
        }
        "encode" => {
            let mut cases = Vec::new();
            if let Some(c) = a.get("cases") {
                cases.extend(encode::cases_from_tlc(c));
            }
            let k = if thorough { 20 } else { 1 };
            if !a.contains_key("only-cases") {
                cases.extend(encode::random_cases(seed, 600 * k, 60 * k, 24 * k, 150 * k));
            }
            let summary = encode::drive(cases, &out);
            println!("{}", json!({"summary": summary}));
        }
        "txt" => {
            let limit = a.get("limit").and_then(|s| s.parse().ok()).unwrap_or(5);
            let k = if thorough { 20 } else { 1 };
            let only = a.contains_key("only-cases");
            let summary = txt::drive(a.get("cases").map(|s| s.as_str()), limit, seed,
                                     if only { 0 } else { 1500 * k }, if only { 0 } else { 2000 * k },
                                     if only { 0 } else if thorough { 5 } else { 4 }, &out);
            println!("{}", json!({"summary": summary}));
        }
        "smoke" => smoke::run(&out),
        "compare" => {
            let summary = compare::drive(a.get("cases").map(|s| s.as_str()).unwrap_or(""), &out);
            println!("{}", json!({"summary": summary}));
        }
        "respond" => {
            let from: u64 = a.get("from").and_then(|s| s.parse().ok()).unwrap_or(1);
            let to: u64 = a.get("to").and_then(|s| s.parse().ok()).unwrap_or(a.get("n").and_then(|s| s.parse().ok()).unwrap_or(40));
            let mut lines = Vec::new();
            for id in from..=to {
                lines.extend(respond::scenario(id, seed, thorough));
            }
            sim::write_trace(&out, &lines);
            println!("{}", json!({"summary": {"scenarios": to + 1 - from, "lines": lines.len()}}));
        }
        "browse" | "browsew" | "resolve" | "resolvew" | "flood" | "silent" | "conflict" => {
            let from: u64 = a.get("from").and_then(|s| s.parse().ok()).unwrap_or(1);
            let to: u64 = a.get("to").and_then(|s| s.parse().ok()).unwrap_or(10);
            let mut lines = Vec::new();
            for id in from..=to {
                match cmd.as_str() {
                    "browse" => lines.extend(browse::scenario(id, seed, thorough, "browse")),
                    "browsew" => lines.extend(browse::scenario(id, seed, thorough, "browsew")),
                    "resolve" => lines.extend(browse::scenario_resolve(id, seed, thorough)),
                    "resolvew" => lines.extend(browse::scenario_resolve_p(id, seed, thorough, false)),
                    "silent" => lines.extend(browse::scenario_silent(id, seed, thorough)),
                    "conflict" => lines.extend(conflict::scenario(id, seed, thorough)),
                    _ => lines.extend(browse::scenario_flood(id, seed, thorough)),
                }
            }
            sim::write_trace(&out, &lines);
            println!("{}", json!({"summary": {"scenarios": to + 1 - from, "lines": lines.len()}}));
        }
        "lifecases" => {
            // --cases file (one JSON case per line), --from/--to 1-based line numbers, --stride k, --full n
            let path = a.get("cases").cloned().unwrap_or_default();
            let text = std::fs::read_to_string(&path).expect("cases file");
            let all: Vec<&str> = text.lines().filter(|l| !l.trim().is_empty()).collect();
            let from: usize = a.get("from").and_then(|s| s.parse().ok()).unwrap_or(1);
            let to: usize = a.get("to").and_then(|s| s.parse().ok()).unwrap_or(all.len()).min(all.len());
            let stride: usize = a.get("stride").and_then(|s| s.parse().ok()).unwrap_or(1).max(1);
            let full: u64 = a.get("full").and_then(|s| s.parse().ok()).unwrap_or(0);
            let mut lines = Vec::new();
            let mut n = 0;
            let mut id = from;
            while id <= to {
                let case: serde_json::Value = serde_json::from_str(all[id - 1]).expect("case json");
                lines.extend(lifecycle::scenario_case(id as u64, seed, &case));
                n += 1;
                id += stride;
            }
            for j in 0..full {
                lines.extend(lifecycle::scenario_full(1_000_000 + from as u64 * 100 + j, seed));
                n += 1;
            }
            sim::write_trace(&out, &lines);
            println!("{}", json!({"summary": {"scenarios": n, "lines": lines.len()}}));
        }
        "probecases" => {
            let path = a.get("cases").cloned().unwrap_or_default();
            let text = std::fs::read_to_string(&path).expect("cases file");
            let all: Vec<&str> = text.lines().filter(|l| !l.trim().is_empty()).collect();
            let from: usize = a.get("from").and_then(|s| s.parse().ok()).unwrap_or(1);
            let to: usize = a.get("to").and_then(|s| s.parse().ok()).unwrap_or(all.len()).min(all.len());
            let stride: usize = a.get("stride").and_then(|s| s.parse().ok()).unwrap_or(1).max(1);
            let mut lines = Vec::new();
            let mut n = 0;
            let mut id = from;
            while id <= to {
                let case: serde_json::Value = serde_json::from_str(all[id - 1]).expect("case json");
                let starts: Vec<u64> = case["start"].as_array().expect("start").iter().map(|x| x.as_u64().unwrap_or(0)).collect();
                lines.extend(conflict::scenario_peers_at(id as u64 * 2, seed, thorough, Some(starts)));
                n += 1;
                id += stride;
            }
            sim::write_trace(&out, &lines);
            println!("{}", json!({"summary": {"scenarios": n, "lines": lines.len()}}));
        }
        "apiguard" => {
            let path = a.get("cases").cloned().unwrap_or_default();
            let text = std::fs::read_to_string(&path).expect("cases file");
            let all: Vec<&str> = text.lines().filter(|l| !l.trim().is_empty()).collect();
            let from: usize = a.get("from").and_then(|s| s.parse().ok()).unwrap_or(1);
            let to: usize = a.get("to").and_then(|s| s.parse().ok()).unwrap_or(all.len()).min(all.len());
            let stride: usize = a.get("stride").and_then(|s| s.parse().ok()).unwrap_or(1).max(1);
            let mut lines = Vec::new();
            let mut n = 0;
            let mut id = from;
            while id <= to {
                let case: serde_json::Value = serde_json::from_str(all[id - 1]).expect("case json");
                lines.extend(guard::scenario_api(id as u64, seed, &case));
                n += 1;
                id += stride;
            }
            sim::write_trace(&out, &lines);
            println!("{}", json!({"summary": {"scenarios": n, "lines": lines.len()}}));
        }
        "hostile" => {
            let from: u64 = a.get("from").and_then(|s| s.parse().ok()).unwrap_or(1);
            let to: u64 = a.get("to").and_then(|s| s.parse().ok()).unwrap_or(10);
            let mut lines = Vec::new();
            for id in from..=to {
                lines.extend(guard::scenario_hostile(id, seed, thorough));
            }
            sim::write_trace(&out, &lines);
            println!("{}", json!({"summary": {"scenarios": to + 1 - from, "lines": lines.len()}}));
        }
        "threads" => {
            let from: u64 = a.get("from").and_then(|s| s.parse().ok()).unwrap_or(1);
            let to: u64 = a.get("to").and_then(|s| s.parse().ok()).unwrap_or(10);
            let mut lines = Vec::new();
            for id in from..=to {
                lines.extend(lifecycle::scenario_threads(id, seed));
            }
            sim::write_trace(&out, &lines);
            println!("{}", json!({"summary": {"scenarios": to + 1 - from, "lines": lines.len()}}));
        }
        "multihome" => {
            let from: u64 = a.get("from").and_then(|s| s.parse().ok()).unwrap_or(1);
            let to: u64 = a.get("to").and_then(|s| s.parse().ok()).unwrap_or(10);
            let mut lines = Vec::new();
            for id in from..=to {
                lines.extend(iface::scenario(id, seed, thorough));
            }
            sim::write_trace(&out, &lines);
            println!("{}", json!({"summary": {"scenarios": to + 1 - from, "lines": lines.len()}}));
        }
        "ifcases" => {
            // --cases file (one JSON case per line), --from/--to 1-based line numbers, --stride k
            let path = a.get("cases").cloned().unwrap_or_default();
            let text = std::fs::read_to_string(&path).expect("cases file");
            let all: Vec<&str> = text.lines().filter(|l| !l.trim().is_empty()).collect();
            let from: usize = a.get("from").and_then(|s| s.parse().ok()).unwrap_or(1);
            let to: usize = a.get("to").and_then(|s| s.parse().ok()).unwrap_or(all.len()).min(all.len());
            let stride: usize = a.get("stride").and_then(|s| s.parse().ok()).unwrap_or(1).max(1);
            let mut lines = Vec::new();
            let mut n = 0;
            let mut id = from;
            while id <= to {
                let case: serde_json::Value = serde_json::from_str(all[id - 1]).expect("case json");
                lines.extend(iface::scenario_case(id as u64, seed, &case));
                n += 1;
                id += stride;
            }
            sim::write_trace(&out, &lines);
            println!("{}", json!({"summary": {"scenarios": n, "lines": lines.len()}}));
        }
        "cachecases" => {
            let path = a.get("cases").cloned().unwrap_or_default();
            let text = std::fs::read_to_string(&path).expect("cases file");
            let all: Vec<&str> = text.lines().filter(|l| !l.trim().is_empty()).collect();
            let from: usize = a.get("from").and_then(|s| s.parse().ok()).unwrap_or(1);
            let to: usize = a.get("to").and_then(|s| s.parse().ok()).unwrap_or(all.len()).min(all.len());
            let stride: usize = a.get("stride").and_then(|s| s.parse().ok()).unwrap_or(1).max(1);
            let mut lines = Vec::new();
            let mut n = 0;
            let mut id = from;
            while id <= to {
                let case: serde_json::Value = serde_json::from_str(all[id - 1]).expect("case json");
                lines.extend(cache::scenario_case(id as u64, &case));
                n += 1;
                id += stride;
            }
            sim::write_trace(&out, &lines);
            println!("{}", json!({"summary": {"scenarios": n, "lines": lines.len()}}));
        }
        "cacherand" => {
            let from: u64 = a.get("from").and_then(|s| s.parse().ok()).unwrap_or(0);
            let to: u64 = a.get("to").and_then(|s| s.parse().ok()).unwrap_or(from);
            let mut lines = Vec::new();
            for id in from..=to {
                lines.extend(cache::scenario_rand(id, seed, thorough));
            }
            sim::write_trace(&out, &lines);
            println!("{}", json!({"summary": {"scenarios": to + 1 - from, "lines": lines.len()}}));
        }
        "txt-bytes" => {
            let h = a.get("hex").cloned().unwrap_or_default();
            let bytes: Vec<u8> = (0..h.len() / 2).map(|i| u8::from_str_radix(&h[2 * i..2 * i + 2], 16).unwrap_or(0)).collect();
            std::fs::write(&out, format!("{}\n", txt::run_bytes(0, "replay", &bytes))).unwrap();
            println!("{}", json!({"summary": {}}));
        }
        "decode-one" => {
            let h = a.get("hex").cloned().unwrap_or_default();
            let bytes: Vec<u8> = (0..h.len() / 2)
                .map(|i| u8::from_str_radix(&h[2 * i..2 * i + 2], 16).unwrap_or(0))
                .collect();
            let summary = decode::drive(vec![decode::Case { kind: "replay", bytes }], &out, 1);
            println!("{}", json!({"summary": summary}));
        }
        _ => {
            eprintln!("unknown command {:?}", cmd);
            std::process::exit(2);
        }
    }
}
