//! Driver families of C15 (no API argument and no packet can crash a caller or
//! kill the daemon).
//!
//! `apiguard`: the argument shapes enumerated by TLC from ApiGuard.tla, turned
//! into concrete strings and passed to the public function the case names, on
//! a real daemon in the simulation; then ten seconds of virtual time so that the
//! deferred work runs (probing, announcing - with a conflicting response
//! injected so that names get their suffix -, queries, follow-ups), then a
//! liveness probe (status() and a fresh browse). Numbers, address strings and
//! TXT properties of every odd kind ride along by seed.
//!
//! `hostile`: a daemon with an open browse, an open resolver and a registered
//! service receives datagrams of every kind: random and mutated bytes, and
//! well-formed packets whose names are related to what the daemon is doing and
//! are as awkward as the wire allows (63-byte labels, labels ending in a
//! backslash, dots and backslashes inside labels, bytes that are not UTF-8,
//! names of 255 bytes), conflicts for long registered names, huge TXT / NSEC.

use crate::decode;
use crate::rng::Rng;
use crate::sim::*;
use crate::wire::{self, Msg, Name, RData, RR};
use mdns_sd::{IfKind, ServiceInfo};
use serde_json::{json, Value};

fn topo() -> Vec<IfSpec> {
    vec![IfSpec { name: "eth0".into(), index: 2, addrs: vec![(v4(192, 168, 1, 10), 24), (crate::respond::v6("fe80::1:10"), 64)], up: true }]
}

/// A label of `len` bytes filled according to `fill`; `salt` moves the odd character around.
pub fn build_label(len: usize, fill: &str, salt: u64) -> String {
    if len == 0 {
        return String::new();
    }
    let base = |c: char, n: usize| -> String { std::iter::repeat(c).take(n).collect() };
    let with_at = |odd: &str, filler: char| -> String {
        // place `odd` at the start, in the middle or at the end, pad with `filler` to exactly `len` bytes
        if odd.len() > len {
            return base(filler, len);
        }
        let rest = len - odd.len();
        let pos = match salt % 3 { 0 => 0, 1 => rest / 2, _ => rest };
        format!("{}{}{}", base(filler, pos), odd, base(filler, rest - pos))
    };
    match fill {
        "a" => base('a', len),
        "us" => format!("_{}", base('a', len - 1)),
        "upper" => base('A', len),
        "digit" => base('7', len),
        "dash" => format!("-{}", base('a', len - 1)),
        "ddash" => with_at("--", 'a'),
        "space" => with_at(" ", 'a'),
        "nul" => with_at("\0", 'a'),
        "bs" => if len >= 3 { format!("{}\\{}", base('a', (len - 1) / 2), base('a', len - 1 - (len - 1) / 2)) } else { base('a', len) },
        "tbs" => format!("{}\\", base('a', len - 1)),
        "esc" => with_at("\\.", 'a'),
        "mb2" => with_at("\u{e9}", 'a'),
        "mb3" => with_at("\u{20ac}", 'a'),
        "mb4" => with_at("\u{1f600}", 'a'),
        _ => base('x', len),
    }
}

fn shaped_name(case: &Value, salt: u64, type_like: bool) -> String {
    let mut parts: Vec<String> = Vec::new();
    for (i, l) in case["labels"].as_array().unwrap().iter().enumerate() {
        let mut s = build_label(l["len"].as_u64().unwrap() as usize, l["fill"].as_str().unwrap(), salt + i as u64);
        // service-type labels start with an underscore: half of the time keep the shape but make it pass that test
        if type_like && salt % 2 == 0 && !s.is_empty() && s.is_char_boundary(1) && i + 1 == case["labels"].as_array().unwrap().len() {
            s.replace_range(0..1, "_");
        }
        parts.push(s);
    }
    format!("{}{}", parts.join("."), case["suffix"].as_str().unwrap())
}

fn props_of(r: &mut Rng) -> Vec<(String, String)> {
    match r.below(8) {
        0 => vec![],
        1 => vec![("k".repeat(255), String::new())],
        2 => vec![("k".into(), "v".repeat(253))],
        3 => vec![("k".into(), "v".repeat(254))],
        4 => (0..300).map(|i| (format!("key{}", i), "v".repeat(200))).collect(), // > 64 KB of TXT
        5 => vec![("caf\u{e9}".into(), "x".into())],
        6 => vec![("a=b".into(), "x".into())],
        _ => vec![("path".into(), "/".into())],
    }
}

fn addr_of(r: &mut Rng) -> &'static str {
    *r.pick(&["192.168.1.10", "", "garbage", "1.2.3.4,5.6.7.8", "::1", "256.1.1.1", "192.168.1.10,fe80::1:10", " 192.168.1.10 ", "0.0.0.0", "255.255.255.255"])
}

fn conflict_for(info: &ServiceInfo) -> Msg {
    // a response that claims the instance and host names with other data
    let inst = Name::from_escaped(info.get_fullname());
    let host = Name::from_escaped(info.get_hostname());
    wire::response(vec![
        RR::new(inst, true, 120, RData::Srv { prio: 0, weight: 0, port: 1, target: Name::from_labels(&["other", "local"]) }),
        RR::new(host, true, 120, RData::A([192, 168, 1, 99])),
    ])
}

fn liveness_probe(sim: &mut Sim, d: usize, tag: &str) {
    let c = sim.status(d);
    let ch = sim.browse(d, "_alive._tcp.local.", false);
    sim.kick(d);
    let running = sim.replies.get(&c).map_or(false, |v| v == "Running");
    let started = ch.map_or(false, |ch| sim.event_log.iter().any(|e| e["ch"] == ch && e["k"] == "SearchStarted"));
    let alive = sim.daemons[d].alive;
    sim.log(json!({"e": "probe", "d": d, "tag": tag, "alive": alive, "running": running, "started": started}));
    sim.stop_browse(d, "_alive._tcp.local.");
    sim.kick(d);
}

fn pass_time(sim: &mut Sim, ms: u64) {
    let t = sim.t();
    sim.run_until(t + ms);
}

/// One enumerated case (function, shape).
pub fn scenario_api(id: u64, seed: u64, case: &Value) -> Vec<Value> {
    let mut r = Rng::new(seed.wrapping_mul(982451653).wrapping_add(id));
    let f = case["fn"].as_str().unwrap().to_string();
    let salt = r.below(6);
    let mut sim = Sim::new(json!({"id": id, "family": "apiguard", "fn": f, "labels": case["labels"], "suffix": case["suffix"], "enc": case["enc"], "salt": salt}),
                           seed ^ id, vec![topo()], vec![vec![(0, 2)]]);
    let d = sim.spawn(0);
    sim.monitor(d);
    // something going on already
    if r.chance(1, 2) {
        sim.browse(d, "_busy._tcp.local.", false);
        sim.register(d, ServiceInfo::new("_busy._tcp.local.", "busy", "busyhost.local.", "192.168.1.10", 1234, &[("a", "b")][..]).unwrap());
    }
    sim.kick(d);
    let type_like = matches!(f.as_str(), "browse" | "browse_cache" | "stop_browse" | "register_ty");
    let s = shaped_name(case, salt, type_like);
    sim.log(json!({"e": "note", "arg_len": s.len(), "arg_head": s.chars().take(24).collect::<String>()}));
    let mut registered: Option<ServiceInfo> = None;
    match f.as_str() {
        "browse" => {
            sim.browse(d, &s, false);
        }
        "browse_cache" => {
            sim.browse(d, &s, true);
        }
        "stop_browse" => {
            if r.chance(1, 2) {
                sim.browse(d, &s, false);
            }
            sim.stop_browse(d, &s);
        }
        "resolve_hostname" => {
            let to = *r.pick(&[None, Some(0u64), Some(1), Some(5000), Some(u64::MAX / 4)]);
            sim.resolve_hostname(d, &s, to);
        }
        "stop_resolve_hostname" => {
            if r.chance(1, 2) {
                sim.resolve_hostname(d, &s, None);
            }
            sim.stop_resolve_hostname(d, &s);
        }
        "unregister" => {
            sim.unregister(d, &s);
        }
        "verify" => {
            let to = *r.pick(&[0u64, 1, 3000, u64::MAX / 4]);
            sim.verify(d, &s, to);
        }
        _ => {
            let (ty, inst, host) = match f.as_str() {
                "register_ty" => (s.clone(), "inst".to_string(), "guardhost.local.".to_string()),
                "register_inst" => ("_guard._tcp.local.".to_string(), s.clone(), "guardhost.local.".to_string()),
                _ => ("_guard._tcp.local.".to_string(), "inst".to_string(), s.clone()),
            };
            let props = props_of(&mut r);
            let addr = addr_of(&mut r);
            let port = *r.pick(&[0u16, 1, 8080, 65535]);
            let cid_note = json!({"e": "note", "new": {"ty_len": ty.len(), "inst_len": inst.len(), "host_len": host.len(), "addr": addr, "port": port, "props": props.len()}});
            sim.log(cid_note);
            let made = std::panic::catch_unwind(std::panic::AssertUnwindSafe(|| ServiceInfo::new(&ty, &inst, &host, addr, port, &props[..])));
            match made {
                Err(_) => sim.log(json!({"e": "call", "d": d, "id": 0, "fn": "ServiceInfo::new", "args": {}, "res": "panic", "ch": 0})),
                Ok(Err(_)) => sim.log(json!({"e": "call", "d": d, "id": 0, "fn": "ServiceInfo::new", "args": {}, "res": "Msg", "ch": 0})),
                Ok(Ok(mut info)) => {
                    sim.log(json!({"e": "call", "d": d, "id": 0, "fn": "ServiceInfo::new", "args": {}, "res": "ok", "ch": 0}));
                    if r.chance(1, 4) {
                        info = info.enable_addr_auto();
                    }
                    if r.chance(1, 6) {
                        info.set_requires_probe(false);
                    }
                    let res = guarded_register(&mut sim, d, info.clone());
                    if res == "ok" {
                        registered = Some(info);
                    }
                }
            }
        }
    }
    sim.kick(d);
    // deferred work; a conflict during probing makes the names grow their suffix
    if let Some(info) = &registered {
        if r.chance(2, 3) {
            pass_time(&mut sim, 300);
            let m = conflict_for(info);
            sim.deliver(d, 2, sock4(192, 168, 1, 99, 5353), &m, true);
            sim.kick(d);
        }
    }
    pass_time(&mut sim, 10_000);
    // other knobs with odd numbers
    match r.below(6) {
        0 => sim.set_ip_check_interval(d, *r.pick(&[0u32, 1, u32::MAX])),
        1 => {
            let n = *r.pick(&[0u8, 1, 15, 16, 255]);
            let sd = sim.daemons[d].sd.clone();
            let res = std::panic::catch_unwind(std::panic::AssertUnwindSafe(|| sd.set_service_name_len_max(n)));
            let rk = match res { Err(_) => "panic", Ok(Ok(_)) => "ok", Ok(Err(_)) => "Msg" };
            sim.log(json!({"e": "call", "d": d, "id": 0, "fn": "set_service_name_len_max", "args": {"n": n}, "res": rk, "ch": 0}));
        }
        2 => {
            let k = match r.below(5) {
                0 => IfKind::Name("".into()),
                1 => IfKind::Name("x".repeat(300)),
                2 => IfKind::IndexV4(u32::MAX),
                3 => IfKind::Addr("0.0.0.0".parse().unwrap()),
                _ => IfKind::All,
            };
            sim.if_select(d, r.chance(1, 2), k, json!({"kind": {"k": "odd", "name": "", "ip": "", "idx": 0}}));
        }
        _ => {}
    }
    sim.kick(d);
    pass_time(&mut sim, 1500);
    liveness_probe(&mut sim, d, "end");
    sim.finish()
}

/// `register` whose argument logging cannot rely on the name being well formed.
fn guarded_register(sim: &mut Sim, d: usize, info: ServiceInfo) -> String {
    let sd = sim.daemons[d].sd.clone();
    let fnk = info.get_fullname().to_lowercase();
    let r = std::panic::catch_unwind(std::panic::AssertUnwindSafe(|| sd.register(info)));
    let res = match &r {
        Err(_) => "panic",
        Ok(Ok(_)) => "ok",
        Ok(Err(mdns_sd::Error::Again)) => "Again",
        Ok(Err(mdns_sd::Error::DaemonShutdown)) => "DaemonShutdown",
        Ok(Err(_)) => "Msg",
    };
    sim.log(json!({"e": "call", "d": d, "id": 0, "fn": "register_raw", "args": {"fnk_len": fnk.len()}, "res": res, "ch": 0}));
    res.to_string()
}

// ---------------------------------------------------------------------------
// hostile packets
// ---------------------------------------------------------------------------

fn awkward_label(r: &mut Rng) -> Vec<u8> {
    match r.below(12) {
        0 => vec![b'a'; 63],
        1 => { let mut v = vec![b'a'; 62]; v.push(b'\\'); v }
        2 => b"trail\\".to_vec(),
        3 => b"a.b.c".to_vec(),
        4 => { let mut v = vec![b'.'; 63]; v[0] = b'a'; v }
        5 => vec![0xff, 0xfe, 0x80],
        6 => "caf\u{e9}".as_bytes().to_vec(),
        7 => b"\\\\\\".to_vec(),
        8 => { let mut v = vec![b'x'; 60]; v.extend_from_slice(b" (9)"); v }
        9 => b"x (2)".to_vec(),
        10 => vec![b'\\'; 63],
        _ => vec![0u8; 5],
    }
}

fn long_name(r: &mut Rng, tail: &Name) -> Name {
    // as close to 255 bytes as the tail allows
    let mut labels: Vec<Vec<u8>> = Vec::new();
    let tail_len: usize = tail.0.iter().map(|l| l.len() + 1).sum::<usize>() + 1;
    let mut left = 255usize.saturating_sub(tail_len);
    while left > 1 {
        let n = (left - 1).min(63).min(r.range(40, 63) as usize);
        labels.push(vec![b'l'; n]);
        left -= n + 1;
    }
    labels.extend(tail.0.clone());
    Name(labels)
}

fn hostile_response(r: &mut Rng, ty: &Name, host: &Name, own_inst: &Name, own_host: &Name) -> Msg {
    let mut inst_labels = vec![awkward_label(r)];
    inst_labels.extend(ty.0.clone());
    let inst = if r.chance(1, 6) { long_name(r, ty) } else { Name(inst_labels) };
    let target = match r.below(5) {
        0 => host.clone(),
        1 => Name(vec![awkward_label(r), b"local".to_vec()]),
        2 => long_name(r, &Name::from_labels(&["local"])),
        3 => own_host.clone(),
        _ => Name(vec![awkward_label(r), awkward_label(r), b"local".to_vec()]),
    };
    let mut recs = vec![];
    if r.chance(3, 4) {
        recs.push(RR::new(ty.clone(), false, *r.pick(&[0u32, 1, 120, 4500, u32::MAX]), RData::Ptr(inst.clone())));
    }
    if r.chance(3, 4) {
        recs.push(RR::new(inst.clone(), r.chance(1, 2), *r.pick(&[0u32, 1, 120, u32::MAX]), RData::Srv { prio: 0, weight: 0, port: r.below(65536) as u16, target: target.clone() }));
    }
    if r.chance(1, 2) {
        let txt: Vec<u8> = match r.below(9) {
            0 => vec![],
            1 => vec![255; 300],
            2 => { let mut v = vec![200u8]; v.extend(vec![b'k'; 10]); v }
            3 => (0..8000).map(|i| if i % 256 == 0 { 255 } else { b'x' }).collect(),
            4 => vec![1, b'=', 0, 3, b'a', b'=', 0xff],
            _ => {
                // every boundary of the last string: 0-2 well-formed strings, then one whose length byte says one byte less
                // than, exactly, one or two bytes more than what is left of the RDATA (or 255)
                let mut v = vec![];
                for i in 0..r.below(3) {
                    let s = format!("k{}=v{}", i, i);
                    v.push(s.len() as u8);
                    v.extend(s.as_bytes());
                }
                let have = r.below(6) as usize;
                let says = match r.below(5) { 0 => have.saturating_sub(1), 1 => have, 2 => have + 1, 3 => have + 2, _ => 255 };
                v.push(says as u8);
                v.extend(std::iter::repeat(b'a').take(have));
                v
            }
        };
        recs.push(RR::new(inst.clone(), true, 4500, RData::Txt(txt)));
    }
    if r.chance(2, 3) {
        recs.push(RR::new(target.clone(), true, *r.pick(&[0u32, 1, 120]), RData::A([192, 168, 1, r.below(255) as u8])));
    }
    if r.chance(1, 3) {
        recs.push(RR::new(target.clone(), true, 120, RData::Aaaa([0xfe, 0x80, 0, 0, 0, 0, 0, 0, 0, 0, 0, 0, 0, 1, 0, r.below(255) as u8])));
    }
    if r.chance(1, 3) {
        // conflicts for our own names
        recs.push(RR::new(own_inst.clone(), true, 120, RData::Srv { prio: 0, weight: 0, port: 9, target: Name::from_labels(&["thief", "local"]) }));
        recs.push(RR::new(own_host.clone(), true, 120, RData::A([192, 168, 1, 66])));
    }
    r.shuffle(&mut recs);
    let mut m = wire::response(vec![]);
    for rr in recs {
        if r.chance(2, 3) { m.answers.push(rr) } else { m.additionals.push(rr) }
    }
    if m.answers.is_empty() && !m.additionals.is_empty() {
        let x = m.additionals.remove(0);
        m.answers.push(x);
    }
    m
}

fn hostile_query(r: &mut Rng, ty: &Name, own_inst: &Name, own_host: &Name) -> Msg {
    let mut qs = vec![];
    for _ in 0..r.range(1, 4) {
        let n = match r.below(6) {
            0 => ty.clone(),
            1 => own_inst.clone(),
            2 => own_host.clone(),
            3 => Name(vec![awkward_label(r), b"local".to_vec()]),
            4 => long_name(r, ty),
            _ => Name::from_labels(&["_services", "_dns-sd", "_udp", "local"]),
        };
        qs.push((n, *r.pick(&[wire::T_PTR, wire::T_SRV, wire::T_TXT, wire::T_A, wire::T_AAAA, wire::T_ANY, 47u16, 0, 65535])));
    }
    let mut m = wire::query(qs);
    if r.chance(1, 2) {
        // known answers / probe authorities of every awkward kind
        let rr = RR::new(own_inst.clone(), r.chance(1, 2), *r.pick(&[0u32, 60, 4500, u32::MAX]), RData::Srv { prio: 0, weight: 0, port: 7, target: Name(vec![awkward_label(r), b"local".to_vec()]) });
        if r.chance(1, 2) { m.answers.push(rr) } else { m.authorities.push(rr) }
    }
    if r.chance(1, 4) {
        m.flags |= 0x0200; // TC
    }
    m
}

pub fn scenario_hostile(id: u64, seed: u64, thorough: bool) -> Vec<Value> {
    let mut r = Rng::new(seed.wrapping_mul(472882027).wrapping_add(id));
    let mut sim = Sim::new(json!({"id": id, "family": "hostile"}), seed ^ id, vec![topo()], vec![vec![(0, 2)]]);
    let d = sim.spawn(0);
    sim.monitor(d);
    let tyname = "_hostile._tcp.local.";
    let ty = Name::from_escaped(tyname);
    let host = Name::from_labels(&["victim", "local"]);
    sim.browse(d, tyname, false);
    sim.resolve_hostname(d, "victim.local.", None);
    // our own service: an instance label close to the limit, so that a conflict suffix makes it over-long
    let inst_label = match r.below(4) {
        0 => "i".repeat(63),
        1 => "i".repeat(60),
        2 => format!("{} (9)", "i".repeat(58)),
        _ => "Mine".to_string(),
    };
    let host_label = match r.below(3) {
        0 => "h".repeat(63),
        1 => format!("{}-9", "h".repeat(60)),
        _ => "minehost".to_string(),
    };
    let own = std::panic::catch_unwind(std::panic::AssertUnwindSafe(|| ServiceInfo::new(tyname, &inst_label, &format!("{}.local.", host_label), "192.168.1.10", 4321, &[("k", "v")][..])));
    let (own_inst, own_host) = match own {
        Ok(Ok(info)) => {
            let a = Name::from_escaped(info.get_fullname());
            let b = Name::from_escaped(info.get_hostname());
            guarded_register(&mut sim, d, info);
            (a, b)
        }
        _ => (Name::from_labels(&["none", "_hostile", "_tcp", "local"]), Name::from_labels(&["none", "local"])),
    };
    sim.kick(d);
    // while our own names are being probed: queries for them (type ANY and others) whose authority section holds
    // nothing, a prefix of what we propose, exactly what we propose, or more (tiebreak with lists of every length)
    for _ in 0..r.range(0, 4) {
        let mut q = wire::query(vec![(own_inst.clone(), wire::T_ANY), (own_host.clone(), wire::T_ANY)]);
        if r.chance(1, 3) {
            q.questions.truncate(1);
        }
        let ours = vec![
            RR::new(own_inst.clone(), false, 120, RData::Srv { prio: 0, weight: 0, port: 4321, target: own_host.clone() }),
            RR::new(own_inst.clone(), false, 4500, RData::Txt(vec![3, b'k', b'=', b'v'])),
            RR::new(own_host.clone(), false, 120, RData::A([192, 168, 1, 10])),
            RR::new(own_host.clone(), false, 120, RData::Aaaa([0xfe, 0x80, 0, 0, 0, 0, 0, 0, 0, 0, 0, 0, 0, 1, 0, 0x10])),
        ];
        let take = r.below(ours.len() as u64 + 2) as usize;
        q.authorities = ours.into_iter().take(take).collect();
        if take > 4 {
            q.authorities.push(RR::new(own_host.clone(), false, 120, RData::A([192, 168, 1, 250])));
        }
        if r.chance(1, 4) {
            r.shuffle(&mut q.authorities);
        }
        sim.deliver(d, 2, sock4(192, 168, 1, 79, 5353), &q, r.chance(1, 2));
        sim.kick(d);
        pass_time(&mut sim, r.below(300));
        if !sim.daemons[d].alive {
            break;
        }
    }
    let n = if thorough { 60 } else { 25 };
    let srcs = [sock4(192, 168, 1, 77, 5353), sock4(192, 168, 1, 78, 40000), sock4(10, 1, 2, 3, 5353)];
    for k in 0..n {
        let src = *r.pick(&srcs);
        match r.below(10) {
            0 | 1 => {
                // random / mutated bytes
                let base = wire::build(&hostile_response(&mut r, &ty, &host, &own_inst, &own_host), true);
                let bytes = match r.below(3) {
                    0 => { let n = r.below(600) as usize; r.bytes(n) }
                    1 => decode::mutate(&mut r, base),
                    _ => { let mut b = base; let cut = r.below(b.len() as u64 + 1) as usize; b.truncate(cut); b }
                };
                let parsed = wire::parse(&bytes).ok();
                sim.deliver_raw(d, 2, true, src, bytes, parsed, "hostile");
            }
            2 | 3 | 4 | 5 => {
                let m = hostile_response(&mut r, &ty, &host, &own_inst, &own_host);
                let c = r.chance(1, 2);
                sim.deliver(d, 2, src, &m, c);
            }
            6 | 7 => {
                let m = hostile_query(&mut r, &ty, &own_inst, &own_host);
                sim.deliver(d, 2, src, &m, false);
            }
            8 => {
                // a packet as large as a datagram can be
                let mut m = wire::response(vec![]);
                for i in 0..400 {
                    m.answers.push(RR::new(Name(vec![format!("big{}", i).into_bytes(), b"local".to_vec()]), true, 120, RData::A([10, 0, (i / 256) as u8, (i % 256) as u8])));
                }
                sim.deliver(d, 2, src, &m, true);
            }
            _ => {
                // on an interface index the daemon does not have, or over the other family
                let m = hostile_response(&mut r, &ty, &host, &own_inst, &own_host);
                let bytes = wire::build(&m, true);
                let idx = *r.pick(&[0u32, 7, u32::MAX]);
                sim.deliver_raw(d, idx, r.chance(1, 2), src, bytes, Some(m), "hostile");
            }
        }
        sim.kick(d);
        if k % 5 == 4 {
            pass_time(&mut sim, *r.pick(&[50u64, 600, 1200, 3000]));
        }
        if !sim.daemons[d].alive {
            break;
        }
    }
    pass_time(&mut sim, 6000);
    // a verify for whatever was learned, and an unregister of our own service under every name it may have now
    sim.verify(d, &format!("{}.{}", "x", tyname), 1000);
    sim.kick(d);
    pass_time(&mut sim, 2500);
    liveness_probe(&mut sim, d, "end");
    sim.finish()
}
