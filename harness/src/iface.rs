//! Driver families of C18 (each interface is its own link): a real daemon on a
//! simulated multi-homed host whose interface table changes under it
//! (addresses added / removed / moved, interfaces going down and up, a family
//! vanishing), with enable / disable selections of every kind interleaved with
//! registrations (automatic and explicit addresses), a browse against scripted
//! responders on every link, and queries from peers on every interface.
//! `multihome`: random histories; `ifcases`: the (topology, selections) cases
//! enumerated by TLC from MCIface.tla, replayed on a real daemon.

use crate::browse::{txt_bytes, Act, Remote, Runner};
use crate::respond::v6;
use crate::rng::Rng;
use crate::sim::*;
use crate::wire::{self, Name};
use mdns_sd::{IfKind, ServiceInfo};
use serde_json::{json, Value};
use std::net::{IpAddr, Ipv6Addr, SocketAddr, SocketAddrV6};

#[derive(Clone, Debug)]
pub enum Kind {
    All,
    IPv4,
    IPv6,
    Name(String),
    Addr(IpAddr),
    LoopbackV4,
    LoopbackV6,
    IndexV4(u32),
    IndexV6(u32),
}

impl Kind {
    pub fn to_ifkind(&self) -> IfKind {
        match self {
            Kind::All => IfKind::All,
            Kind::IPv4 => IfKind::IPv4,
            Kind::IPv6 => IfKind::IPv6,
            Kind::Name(n) => IfKind::Name(n.clone()),
            Kind::Addr(a) => IfKind::Addr(*a),
            Kind::LoopbackV4 => IfKind::LoopbackV4,
            Kind::LoopbackV6 => IfKind::LoopbackV6,
            Kind::IndexV4(i) => IfKind::IndexV4(*i),
            Kind::IndexV6(i) => IfKind::IndexV6(*i),
        }
    }
    pub fn to_json(&self) -> Value {
        let (k, name, ip, idx) = match self {
            Kind::All => ("All", String::new(), String::new(), 0),
            Kind::IPv4 => ("IPv4", String::new(), String::new(), 0),
            Kind::IPv6 => ("IPv6", String::new(), String::new(), 0),
            Kind::Name(n) => ("Name", n.clone(), String::new(), 0),
            Kind::Addr(a) => ("Addr", String::new(), a.to_string(), 0),
            Kind::LoopbackV4 => ("LoopbackV4", String::new(), String::new(), 0),
            Kind::LoopbackV6 => ("LoopbackV6", String::new(), String::new(), 0),
            Kind::IndexV4(i) => ("IndexV4", String::new(), String::new(), *i),
            Kind::IndexV6(i) => ("IndexV6", String::new(), String::new(), *i),
        };
        json!({"kind": {"k": k, "name": name, "ip": ip, "idx": idx}})
    }
    pub fn from_json(v: &Value) -> Kind {
        let k = v["k"].as_str().unwrap_or("All");
        match k {
            "IPv4" => Kind::IPv4,
            "IPv6" => Kind::IPv6,
            "Name" => Kind::Name(v["name"].as_str().unwrap_or("").to_string()),
            "Addr" => Kind::Addr(v["ip"].as_str().unwrap_or("0.0.0.0").parse().unwrap()),
            "LoopbackV4" => Kind::LoopbackV4,
            "LoopbackV6" => Kind::LoopbackV6,
            "IndexV4" => Kind::IndexV4(v["idx"].as_u64().unwrap_or(0) as u32),
            "IndexV6" => Kind::IndexV6(v["idx"].as_u64().unwrap_or(0) as u32),
            _ => Kind::All,
        }
    }
}

fn prefix_of(ip: &IpAddr) -> u8 {
    match ip {
        IpAddr::V4(a) if a.is_loopback() => 8,
        IpAddr::V4(a) if a.octets()[0] == 10 => 8,
        IpAddr::V4(_) => 24,
        IpAddr::V6(a) if a.is_loopback() => 128,
        IpAddr::V6(_) => 64,
    }
}

fn ifc(name: &str, index: u32, addrs: &[IpAddr]) -> IfSpec {
    IfSpec { name: name.into(), index, addrs: addrs.iter().map(|a| (*a, prefix_of(a))).collect(), up: true }
}

fn random_kind(r: &mut Rng, ifs: &[IfSpec]) -> Kind {
    let all_addrs: Vec<IpAddr> = ifs.iter().flat_map(|i| i.addrs.iter().map(|(a, _)| *a)).collect();
    match r.below(12) {
        0 => Kind::All,
        1 => Kind::IPv4,
        2 => Kind::IPv6,
        3 | 4 => Kind::Name(r.pick(&["eth0", "wlan0", "usb0", "lo"]).to_string()),
        5 | 6 => {
            if all_addrs.is_empty() || r.chance(1, 6) { Kind::Addr(v4(10, 9, 9, 9)) } else { Kind::Addr(*r.pick(&all_addrs)) }
        }
        7 => Kind::LoopbackV4,
        8 => Kind::LoopbackV6,
        9 | 10 => Kind::IndexV4(r.range(1, 4) as u32),
        _ => Kind::IndexV6(r.range(1, 4) as u32),
    }
}

/// A scripted responder on the link of `ifc`, speaking the family `want_v4`.
fn remote_on(ifc: &IfSpec, k: u8, want_v4: bool, ty: &str) -> Option<Remote> {
    let (a, _) = ifc.addrs.iter().find(|(a, _)| a.is_ipv4() == want_v4 && !a.is_loopback())?;
    let (ip, src) = match a {
        IpAddr::V4(x) => {
            let o = x.octets();
            (v4(o[0], o[1], o[2], 100 + k), sock4(o[0], o[1], o[2], 100 + k, 5353))
        }
        IpAddr::V6(x) => {
            let mut s = x.segments();
            s[7] = 0x100 + k as u16;
            let ip = Ipv6Addr::from(s);
            (IpAddr::V6(ip), SocketAddr::V6(SocketAddrV6::new(ip, 5353, 0, ifc.index)))
        }
    };
    let tyn = Name::from_escaped(ty);
    let mut il = vec![format!("Remote{}", k).into_bytes()];
    il.extend(tyn.0.clone());
    Some(Remote {
        ty: tyn,
        sub: None,
        inst: Name(il),
        host: Name(vec![format!("rhost{}", k).into_bytes(), b"local".to_vec()]),
        port: 600 + k as u16,
        txt: txt_bytes(&[("k", Some(b"v"))]),
        addrs: vec![ip],
        ttl_host: 120,
        ttl_other: 4500,
        ifidx: ifc.index,
        src,
        answers: true,
    })
}

fn peer_query_src(ifc: &IfSpec, want_v4: bool) -> Option<SocketAddr> {
    let (a, _) = ifc.addrs.iter().find(|(a, _)| a.is_ipv4() == want_v4)?;
    Some(match a {
        IpAddr::V4(x) => {
            let o = x.octets();
            sock4(o[0], o[1], o[2], 200, 5353)
        }
        IpAddr::V6(x) => {
            let mut s = x.segments();
            s[7] = 0x200;
            SocketAddr::V6(SocketAddrV6::new(Ipv6Addr::from(s), 5353, 0, ifc.index))
        }
    })
}

fn mutate(r: &mut Rng, cur: &[IfSpec]) -> (Vec<IfSpec>, &'static str) {
    let mut n: Vec<IfSpec> = cur.to_vec();
    let spare: Vec<(&str, u32, IpAddr)> = vec![
        ("eth0", 2, v4(192, 168, 1, 10)), ("eth0", 2, v6("fe80::1:10")), ("eth0", 2, v4(10, 0, 0, 10)), ("eth0", 2, v4(192, 168, 1, 11)),
        ("wlan0", 3, v4(192, 168, 2, 10)), ("wlan0", 3, v6("2001:db8:2::10")), ("wlan0", 3, v4(192, 168, 1, 77)),
        ("usb0", 4, v4(192, 168, 3, 10)), ("usb0", 4, v6("fe80::3:10")),
    ];
    for _ in 0..8 {
        match r.below(7) {
            0 | 1 => {
                // an address appears (possibly bringing a new interface)
                let (name, idx, ip) = r.pick(&spare).clone();
                if n.iter().any(|i| i.addrs.iter().any(|(a, _)| *a == ip)) {
                    continue;
                }
                match n.iter_mut().find(|i| i.index == idx) {
                    Some(i) => i.addrs.push((ip, prefix_of(&ip))),
                    None => n.push(ifc(name, idx, &[ip])),
                }
                return (n, "addr-added");
            }
            2 => {
                // an address disappears
                let cands: Vec<(usize, usize)> = n.iter().enumerate().flat_map(|(x, i)| (0..i.addrs.len()).map(move |y| (x, y))).collect();
                if cands.len() < 2 {
                    continue;
                }
                let (x, y) = *r.pick(&cands);
                n[x].addrs.remove(y);
                if n[x].addrs.is_empty() {
                    n.remove(x);
                }
                return (n, "addr-removed");
            }
            3 => {
                // interface down / up
                if n.len() < 2 && n.iter().all(|i| i.up) {
                    continue;
                }
                let x = r.below(n.len() as u64) as usize;
                n[x].up = !n[x].up;
                let what = if n[x].up { "if-up" } else { "if-down" };
                return (n, what);
            }
            4 => {
                // interface disappears
                if n.len() < 2 {
                    continue;
                }
                let x = r.below(n.len() as u64) as usize;
                n.remove(x);
                return (n, "if-removed");
            }
            5 => {
                // an address moves to another interface
                if n.len() < 2 {
                    continue;
                }
                let x = r.below(n.len() as u64) as usize;
                let y = (x + 1 + r.below(n.len() as u64 - 1) as usize) % n.len();
                if n[x].addrs.len() < 2 {
                    continue;
                }
                let pos = r.below(n[x].addrs.len() as u64) as usize;
                let a = n[x].addrs.remove(pos);
                n[y].addrs.push(a);
                return (n, "addr-moved");
            }
            _ => {
                // one family vanishes from an interface that has both
                let cands: Vec<usize> = (0..n.len()).filter(|x| n[*x].addrs.iter().any(|(a, _)| a.is_ipv4()) && n[*x].addrs.iter().any(|(a, _)| a.is_ipv6())).collect();
                if cands.is_empty() {
                    continue;
                }
                let x = *r.pick(&cands);
                let v4gone = r.chance(1, 2);
                n[x].addrs.retain(|(a, _)| a.is_ipv4() != v4gone);
                return (n, "family-gone");
            }
        }
    }
    (n, "none")
}

fn initial_topology(r: &mut Rng) -> Vec<IfSpec> {
    let mut v = vec![];
    if r.chance(1, 3) {
        let mut a = vec![v4(127, 0, 0, 1)];
        if r.chance(1, 2) {
            a.push(v6("::1"));
        }
        v.push(ifc("lo", 1, &a));
    }
    let e: Vec<IpAddr> = match r.below(5) {
        0 => vec![v4(192, 168, 1, 10)],
        1 => vec![v6("fe80::1:10")],
        2 => vec![v4(192, 168, 1, 10), v4(10, 0, 0, 10)],
        _ => vec![v4(192, 168, 1, 10), v6("fe80::1:10")],
    };
    v.push(ifc("eth0", 2, &e));
    if r.chance(2, 3) {
        let w: Vec<IpAddr> = match r.below(4) {
            0 => vec![v4(192, 168, 2, 10)],
            1 => vec![v6("2001:db8:2::10")],
            _ => vec![v4(192, 168, 2, 10), v6("2001:db8:2::10")],
        };
        v.push(ifc("wlan0", 3, &w));
    }
    v
}

fn auto_service(ty: &str, inst: &str, host: &str, port: u16) -> ServiceInfo {
    ServiceInfo::new(ty, inst, host, "", port, &[("auto", "1")][..]).expect("ServiceInfo::new").enable_addr_auto()
}

fn explicit_service(ty: &str, inst: &str, host: &str, port: u16, addrs: &[IpAddr]) -> ServiceInfo {
    ServiceInfo::new(ty, inst, host, addrs, port, &[("explicit", "1")][..]).expect("ServiceInfo::new")
}

fn queries_round(r: &mut Rng, run: &mut Runner, t: u64, ifs: &[IfSpec], names: &[(String, String, String)]) {
    // (type, fullname, host) of the registered services
    for i in ifs {
        for want_v4 in [true, false] {
            if !r.chance(2, 3) {
                continue;
            }
            let Some(src) = peer_query_src(i, want_v4) else { continue };
            let (ty, fnm, host) = r.pick(names).clone();
            let q = match r.below(4) {
                0 => (Name::from_escaped(&ty), wire::T_PTR),
                1 => (Name::from_escaped(&host), if r.chance(1, 2) { wire::T_A } else { wire::T_AAAA }),
                2 => (Name::from_escaped(&host), wire::T_ANY),
                _ => (Name::from_escaped(&fnm), if r.chance(1, 2) { wire::T_SRV } else { wire::T_ANY }),
            };
            let m = wire::query(vec![q]);
            run.at(t + r.below(400), Act::Deliver { ifidx: i.index, src, msg: m, compress: false });
        }
    }
}

/// Family `multihome`.
pub fn scenario(id: u64, seed: u64, thorough: bool) -> Vec<Value> {
    let mut r = Rng::new(seed.wrapping_mul(15485863).wrapping_add(id));
    let ifs0 = initial_topology(&mut r);
    let links: Vec<Vec<(usize, u32)>> = (1..=4u32).map(|i| vec![(0usize, i)]).collect();
    let mut sim = Sim::new(json!({"id": id, "family": "multihome"}), seed ^ id, vec![ifs0.clone()], links);
    let d = sim.spawn(0);
    let mut run = Runner::new(sim, d, r.fork(3), false);
    run.link_check = true;
    run.answer_prob = (1, 1);
    run.max_iters = 6000;
    let ipint: u32 = *r.pick(&[1u32, 1, 2, 3, 5]);
    run.at(0, Act::Monitor);
    if ipint != 5 || r.chance(1, 2) {
        run.at(1, Act::IpInterval(ipint));
    }
    let w = ipint as u64 * 1000 + 1000;
    let ty = "_ipp._tcp.local.";
    // early selections
    let mut t = 5;
    for _ in 0..r.below(3) {
        let k = random_kind(&mut r, &ifs0);
        run.at(t, Act::IfSelect(r.chance(1, 3), k));
        t += r.range(1, 300);
    }
    // services
    let mut names: Vec<(String, String, String)> = vec![];
    let auto = auto_service("_http._tcp.local.", "AutoSvc", "autohost.local.", 8080);
    names.push(("_http._tcp.local.".into(), auto.get_fullname().to_string(), "autohost.local.".into()));
    run.at(t + r.below(500), Act::RegisterInfo(Box::new(auto)));
    if r.chance(2, 3) {
        let mut addrs = vec![];
        for cand in [v4(192, 168, 1, 10), v4(192, 168, 2, 10), v6("fe80::1:10"), v6("2001:db8:2::10"), v4(192, 168, 3, 10), v4(10, 55, 0, 1), v4(203, 0, 113, 9)] {
            if r.chance(1, 2) {
                addrs.push(cand);
            }
        }
        if addrs.is_empty() {
            addrs.push(v4(192, 168, 1, 10));
        }
        let ex = explicit_service("_osc._udp.local.", "FixedSvc", "fixedhost.local.", 9000, &addrs);
        names.push(("_osc._udp.local.".into(), ex.get_fullname().to_string(), "fixedhost.local.".into()));
        run.at(t + r.below(800), Act::RegisterInfo(Box::new(ex)));
    }
    // browse and the responders on the links
    let t_browse = t + r.below(1200);
    run.at(t_browse, Act::Browse(ty.to_string(), false));
    let pool = vec![ifc("eth0", 2, &[v4(192, 168, 1, 10), v6("fe80::1:10")]), ifc("wlan0", 3, &[v4(192, 168, 2, 10), v6("2001:db8:2::10")]),
                    ifc("usb0", 4, &[v4(192, 168, 3, 10), v6("fe80::3:10")])];
    let mut k = 0u8;
    for p in &pool {
        for want_v4 in [true, false] {
            if r.chance(1, 2) {
                if let Some(rm) = remote_on(p, k, want_v4, ty) {
                    // announces itself now and then; answers the daemon's queries
                    let mut ta = t_browse + r.below(2500);
                    for _ in 0..r.range(1, 3) {
                        let mut m = wire::response(vec![rm.ptr()]);
                        m.additionals = vec![rm.srv(), rm.txtrr()];
                        m.additionals.extend(rm.addr_rrs());
                        run.at(ta, Act::Deliver { ifidx: rm.ifidx, src: rm.src, msg: m, compress: true });
                        ta += r.range(3000, 12_000);
                    }
                    run.remotes.push(rm);
                }
                k += 1;
            }
        }
    }
    // a responder reachable on two links at once (same instance heard on eth0 and wlan0)
    if r.chance(1, 3) {
        if let (Some(a), Some(b)) = (remote_on(&pool[0], 40, true, ty), remote_on(&pool[1], 40, true, ty)) {
            let mut b2 = b.clone();
            b2.inst = a.inst.clone();
            b2.host = a.host.clone();
            for rm in [a, b2] {
                let mut m = wire::response(vec![rm.ptr()]);
                m.additionals = vec![rm.srv(), rm.txtrr()];
                m.additionals.extend(rm.addr_rrs());
                run.at(t_browse + r.below(2000), Act::Deliver { ifidx: rm.ifidx, src: rm.src, msg: m, compress: true });
                run.remotes.push(rm);
            }
        }
    }
    // interface events and later selections, far enough apart to see their effect
    let nev = if thorough { r.range(2, 6) } else { r.range(1, 4) };
    let mut cur = ifs0.clone();
    let mut te = t_browse + r.range(1500, 4000);
    let mut tables: Vec<(u64, Vec<IfSpec>)> = vec![(0, cur.clone())];
    for _ in 0..nev {
        let dual: Vec<&IfSpec> = cur.iter().filter(|i| i.up && i.addrs.iter().any(|(a, _)| a.is_ipv4()) && i.addrs.iter().any(|(a, _)| a.is_ipv6())).collect();
        if !dual.is_empty() && r.chance(1, 5) {
            // one IP family of a dual-stack interface is disabled (what was learned over it must no longer be reported)
            let i = *r.pick(&dual);
            let k = if r.chance(1, 2) { Kind::IndexV6(i.index) } else { Kind::IndexV4(i.index) };
            run.at(te, Act::IfSelect(false, k));
        } else if r.chance(3, 5) {
            let (n, _what) = mutate(&mut r, &cur);
            cur = n;
            tables.push((te, cur.clone()));
            run.at(te, Act::SetIfs(cur.clone()));
        } else {
            let kk = random_kind(&mut r, &cur);
            run.at(te, Act::IfSelect(r.chance(1, 2), kk));
        }
        // sometimes the next change comes before the daemon had a chance to notice this one
        te += if r.chance(1, 5) { r.range(100, 900) } else { w + r.range(1500, 4000) };
    }
    let horizon = te + w + 3000;
    // peers ask on every interface of the table in force, all the time
    let mut tq = 1500;
    while tq < horizon {
        let tab = tables.iter().rev().find(|(t0, _)| *t0 <= tq).map(|(_, x)| x.clone()).unwrap_or_default();
        let live: Vec<IfSpec> = tab.into_iter().filter(|i| i.up).collect();
        if !live.is_empty() {
            queries_round(&mut r, &mut run, tq, &live, &names);
        }
        tq += r.range(900, 2200);
    }
    // a second look at the cache: what is still reported
    run.at(horizon - 1500, Act::Browse(ty.to_string(), r.chance(1, 2)));
    match r.below(4) {
        0 => run.at(horizon - 800, Act::Unregister(names[0].1.clone())),
        1 => run.at(horizon - 800, Act::Shutdown),
        _ => {}
    }
    run.run_until(horizon);
    run.sim.finish()
}

/// Family `ifcases`: one (topology, selections) case enumerated by TLC.
pub fn scenario_case(id: u64, seed: u64, case: &Value) -> Vec<Value> {
    let mut r = Rng::new(seed.wrapping_mul(32452843).wrapping_add(id));
    let mut ifs: Vec<IfSpec> = vec![];
    for i in case["top"].as_array().cloned().unwrap_or_default() {
        let addrs: Vec<IpAddr> = i["addrs"].as_array().unwrap().iter().map(|a| a.as_str().unwrap().parse().unwrap()).collect();
        ifs.push(ifc(i["name"].as_str().unwrap(), i["idx"].as_u64().unwrap() as u32, &addrs));
    }
    let links: Vec<Vec<(usize, u32)>> = (1..=4u32).map(|i| vec![(0usize, i)]).collect();
    // the selections are made either on the full table, or while part of it is still missing
    // ("also for interfaces that show up later")
    let later = r.chance(1, 2) && ifs.len() > 1;
    let first: Vec<IfSpec> = if later { ifs[..1].to_vec() } else { ifs.clone() };
    let mut sim = Sim::new(json!({"id": id, "family": "ifcases", "later": later}), seed ^ id, vec![first.clone()], links);
    let d = sim.spawn(0);
    sim.set_ip_check_interval(d, 1);
    sim.kick(d);
    for s in case["sels"].as_array().cloned().unwrap_or_default() {
        let k = Kind::from_json(&s["kind"]);
        let j = k.to_json();
        sim.if_select(d, s["en"].as_bool().unwrap_or(true), k.to_ifkind(), j);
        sim.kick(d);
    }
    if later {
        sim.set_ifs(0, ifs.clone());
        sim.run_until(2600);
    } else {
        // a selection is in force at the latest one second (a probing cycle) after the call
        let t = sim.t();
        sim.run_until(t + 1100);
    }
    let t = sim.t();
    sim.browse(d, "_ipp._tcp.local.", false);
    sim.kick(d);
    sim.run_until(t + 1200);
    // ... and a service with automatic addresses registered now gets the addresses the selections leave enabled:
    // it is probed and announced on every enabled interface (the monitor's obligations fall due three seconds after the call)
    let t = sim.t();
    sim.register(d, auto_service("_http._tcp.local.", "AutoSvc", "autohost.local.", 8080));
    sim.kick(d);
    sim.run_until(t + 3600);
    sim.finish()
}
