//! Independent RFC 1035 / RFC 6762 message reader and writer.
//!
//! Shares no code with the crate under test. The reader is the harness's view
//! of every datagram the daemon emits; the writer builds every datagram the
//! harness injects. Both are cross-checked against `spec/Wire.tla` (TLC
//! re-parses raw bytes) by the C02 check.

use serde_json::{json, Value};

pub type Label = Vec<u8>;

#[derive(Clone, Debug, PartialEq, Eq, Hash, PartialOrd, Ord)]
pub struct Name(pub Vec<Label>);

fn lossy(l: &[u8]) -> String {
    match std::str::from_utf8(l) {
        Ok(s) => s.to_string(),
        Err(_) => l.iter().map(|b| format!("\\x{:02x}", b)).collect(),
    }
}

impl Name {
    pub fn root() -> Name {
        Name(vec![])
    }

    /// Splits a dotted string into labels, honouring `\.` and `\\` escapes.
    pub fn from_escaped(s: &str) -> Name {
        let mut labels = Vec::new();
        let mut cur: Vec<u8> = Vec::new();
        let b = s.as_bytes();
        let mut i = 0;
        while i < b.len() {
            match b[i] {
                b'\\' if i + 1 < b.len() && (b[i + 1] == b'.' || b[i + 1] == b'\\') => {
                    cur.push(b[i + 1]);
                    i += 2;
                }
                b'.' => {
                    if !cur.is_empty() {
                        labels.push(std::mem::take(&mut cur));
                    }
                    i += 1;
                }
                c => {
                    cur.push(c);
                    i += 1;
                }
            }
        }
        if !cur.is_empty() {
            labels.push(cur);
        }
        Name(labels)
    }

    /// Labels from plain strings (no escaping involved).
    pub fn from_labels(ls: &[&str]) -> Name {
        Name(ls.iter().map(|s| s.as_bytes().to_vec()).collect())
    }

    /// The form the crate uses for names read from the wire: labels joined by
    /// dots, a trailing dot, nothing escaped.
    pub fn unescaped(&self) -> String {
        let mut s = String::new();
        for l in &self.0 {
            s.push_str(&lossy(l));
            s.push('.');
        }
        s
    }

    /// RFC 6763 section 4.3 form: dots and backslashes inside labels escaped.
    pub fn escaped(&self) -> String {
        let mut s = String::new();
        for l in &self.0 {
            for ch in lossy(l).chars() {
                if ch == '.' || ch == '\\' {
                    s.push('\\');
                }
                s.push(ch);
            }
            s.push('.');
        }
        s
    }

    pub fn lower(&self) -> Name {
        Name(
            self.0
                .iter()
                .map(|l| match std::str::from_utf8(l) {
                    Ok(s) => s.to_lowercase().into_bytes(),
                    Err(_) => l.to_ascii_lowercase(),
                })
                .collect(),
        )
    }

    pub fn wire_len(&self) -> usize {
        self.0.iter().map(|l| l.len() + 1).sum::<usize>() + 1
    }

    /// JSON: `u` unescaped join, `k` lower-cased unescaped join, `s` escaped
    /// join, `l` the labels.
    pub fn to_json(&self) -> Value {
        json!({
            "u": self.unescaped(),
            "k": self.lower().unescaped(),
            "s": self.escaped(),
            "sk": self.lower().escaped(),
            "l": self.0.iter().map(|l| lossy(l)).collect::<Vec<_>>(),
        })
    }
}

#[derive(Clone, Debug, PartialEq, Eq)]
pub enum RData {
    A([u8; 4]),
    Aaaa([u8; 16]),
    Ptr(Name),
    Cname(Name),
    Srv {
        prio: u16,
        weight: u16,
        port: u16,
        target: Name,
    },
    Txt(Vec<u8>),
    Nsec {
        next: Name,
        rest: Vec<u8>,
    },
    Other(Vec<u8>),
}

pub const T_A: u16 = 1;
pub const T_CNAME: u16 = 5;
pub const T_PTR: u16 = 12;
pub const T_HINFO: u16 = 13;
pub const T_TXT: u16 = 16;
pub const T_AAAA: u16 = 28;
pub const T_SRV: u16 = 33;
pub const T_NSEC: u16 = 47;
pub const T_ANY: u16 = 255;

pub fn type_name(t: u16) -> String {
    match t {
        T_A => "A".into(),
        T_CNAME => "CNAME".into(),
        T_PTR => "PTR".into(),
        T_HINFO => "HINFO".into(),
        T_TXT => "TXT".into(),
        T_AAAA => "AAAA".into(),
        T_SRV => "SRV".into(),
        T_NSEC => "NSEC".into(),
        T_ANY => "ANY".into(),
        x => format!("T{}", x),
    }
}

#[derive(Clone, Debug, PartialEq, Eq)]
pub struct RR {
    pub name: Name,
    pub ty: u16,
    /// class without the cache-flush bit
    pub class: u16,
    pub flush: bool,
    pub ttl: u32,
    pub rdata: RData,
    /// byte span of the whole record inside the datagram (reader only)
    pub span: (usize, usize),
}

impl RR {
    pub fn new(name: Name, flush: bool, ttl: u32, rdata: RData) -> RR {
        let ty = match &rdata {
            RData::A(_) => T_A,
            RData::Aaaa(_) => T_AAAA,
            RData::Ptr(_) => T_PTR,
            RData::Cname(_) => T_CNAME,
            RData::Srv { .. } => T_SRV,
            RData::Txt(_) => T_TXT,
            RData::Nsec { .. } => T_NSEC,
            RData::Other(_) => 0,
        };
        RR {
            name,
            ty,
            class: 1,
            flush,
            ttl,
            rdata,
            span: (0, 0),
        }
    }

    pub fn ip_string(&self) -> Option<String> {
        match &self.rdata {
            RData::A(o) => Some(std::net::Ipv4Addr::from(*o).to_string()),
            RData::Aaaa(o) => Some(std::net::Ipv6Addr::from(*o).to_string()),
            _ => None,
        }
    }

    /// A canonical string for the rdata, used as record identity in traces.
    pub fn rd_key(&self) -> String {
        match &self.rdata {
            RData::A(_) | RData::Aaaa(_) => self.ip_string().unwrap(),
            RData::Ptr(n) | RData::Cname(n) => n.escaped(),
            RData::Srv {
                prio,
                weight,
                port,
                target,
            } => format!("{} {} {} {}", prio, weight, port, target.escaped()),
            RData::Txt(b) => hex(b),
            RData::Nsec { next, rest } => format!("{} {}", next.escaped(), hex(rest)),
            RData::Other(b) => hex(b),
        }
    }

    pub fn to_json(&self) -> Value {
        let mut v = json!({
            "n": self.name.to_json(),
            "ty": type_name(self.ty),
            "cls": self.class,
            "fl": self.flush,
            "ttl": ttl_json(self.ttl),
            "rk": self.rd_key(),
        });
        let o = v.as_object_mut().unwrap();
        match &self.rdata {
            RData::A(x) => {
                o.insert("ip".into(), json!(self.ip_string().unwrap()));
                o.insert("o".into(), json!(x));
            }
            RData::Aaaa(x) => {
                o.insert("ip".into(), json!(self.ip_string().unwrap()));
                o.insert("o".into(), json!(x));
            }
            RData::Ptr(n) | RData::Cname(n) => {
                o.insert("t".into(), n.to_json());
            }
            RData::Srv {
                prio,
                weight,
                port,
                target,
            } => {
                o.insert("t".into(), target.to_json());
                o.insert("po".into(), json!(port));
                o.insert("pr".into(), json!(prio));
                o.insert("we".into(), json!(weight));
            }
            RData::Txt(b) => {
                o.insert("x".into(), json!(hex(b)));
                o.insert("txtd".into(), txt_decoded(b));
            }
            RData::Nsec { next, .. } => {
                o.insert("t".into(), next.to_json());
            }
            RData::Other(_) => {}
        }
        v
    }
}

/// The harness's own reading of TXT RDATA (RFC 6763 6.3-6.4): length-prefixed
/// strings, key up to the first '=', first occurrence of a key (compared
/// case-insensitively) wins; stops at a zero length or a length that runs past
/// the end; strings whose key is not UTF-8 are skipped.
pub fn txt_decoded(b: &[u8]) -> Value {
    let mut out: Vec<Value> = Vec::new();
    let mut seen: Vec<String> = Vec::new();
    let mut i = 0usize;
    while i < b.len() {
        let n = b[i] as usize;
        if n == 0 || i + 1 + n > b.len() {
            break;
        }
        let s = &b[i + 1..i + 1 + n];
        i += 1 + n;
        let (k, v) = match s.iter().position(|c| *c == b'=') {
            Some(p) => (&s[..p], Some(&s[p + 1..])),
            None => (s, None),
        };
        let Ok(ks) = std::str::from_utf8(k) else { continue };
        let lk = ks.to_lowercase();
        if seen.contains(&lk) {
            continue;
        }
        seen.push(lk);
        out.push(json!({"k": ks, "hv": v.is_some(), "v": hex(v.unwrap_or(&[]))}));
    }
    json!(out)
}

/// TTLs above 2^31-1 do not fit a TLC integer; they are clamped in the JSON
/// view (the wire-level checks compare the raw four bytes instead).
pub fn ttl_json(t: u32) -> Value {
    json!(t.min(0x7fff_ffff))
}

pub fn hex(b: &[u8]) -> String {
    let mut s = String::with_capacity(b.len() * 2);
    for x in b {
        s.push_str(&format!("{:02x}", x));
    }
    s
}

#[derive(Clone, Debug, PartialEq, Eq)]
pub struct Question {
    pub name: Name,
    pub ty: u16,
    /// full 16-bit class field (top bit = unicast-response)
    pub class: u16,
}

impl Question {
    pub fn to_json(&self) -> Value {
        json!({"n": self.name.to_json(), "ty": type_name(self.ty), "cls": self.class & 0x7fff, "qu": self.class & 0x8000 != 0})
    }
}

#[derive(Clone, Debug, PartialEq, Eq, Default)]
pub struct Msg {
    pub id: u16,
    pub flags: u16,
    pub questions: Vec<Question>,
    pub answers: Vec<RR>,
    pub authorities: Vec<RR>,
    pub additionals: Vec<RR>,
}

impl Msg {
    pub fn is_response(&self) -> bool {
        self.flags & 0x8000 != 0
    }
    pub fn tc(&self) -> bool {
        self.flags & 0x0200 != 0
    }
    pub fn to_json(&self) -> Value {
        json!({
            "id": self.id,
            "qr": self.is_response(),
            "aa": self.flags & 0x0400 != 0,
            "tc": self.tc(),
            "q": self.questions.iter().map(|q| q.to_json()).collect::<Vec<_>>(),
            "an": self.answers.iter().map(|r| r.to_json()).collect::<Vec<_>>(),
            "ns": self.authorities.iter().map(|r| r.to_json()).collect::<Vec<_>>(),
            "ar": self.additionals.iter().map(|r| r.to_json()).collect::<Vec<_>>(),
        })
    }
}

// ---------------------------------------------------------------------------
// Reader
// ---------------------------------------------------------------------------

#[derive(Debug, Clone, PartialEq, Eq)]
pub struct ParseError(pub String);

fn err<T>(s: &str) -> Result<T, ParseError> {
    Err(ParseError(s.to_string()))
}

fn u16_at(b: &[u8], o: usize) -> Result<u16, ParseError> {
    if o + 2 > b.len() {
        return err("u16 eof");
    }
    Ok(((b[o] as u16) << 8) | b[o + 1] as u16)
}

/// Reads a possibly compressed name at `o`. Lenient about where pointers go
/// (any offset inside the datagram) but every jump must land strictly below
/// the lowest offset visited so far, which is what makes it terminate.
/// Returns the name and the offset after it.
pub fn read_name(b: &[u8], o: usize) -> Result<(Name, usize), ParseError> {
    let mut labels = Vec::new();
    let mut cur = o;
    let mut next: Option<usize> = None;
    let mut floor = o; // jumps must land below this
    let mut total = 0usize;
    loop {
        if cur >= b.len() {
            return err("name eof");
        }
        let c = b[cur];
        if c == 0 {
            return Ok((Name(labels), next.unwrap_or(cur + 1)));
        }
        match c & 0xC0 {
            0x00 => {
                let end = cur + 1 + c as usize;
                if end > b.len() {
                    return err("label eof");
                }
                labels.push(b[cur + 1..end].to_vec());
                total += c as usize + 1;
                if total > 255 + 9000 {
                    return err("name too long");
                }
                cur = end;
            }
            0xC0 => {
                if cur + 2 > b.len() {
                    return err("pointer eof");
                }
                let p = (((c & 0x3F) as usize) << 8) | b[cur + 1] as usize;
                if p >= floor {
                    return err("pointer not backwards");
                }
                if next.is_none() {
                    next = Some(cur + 2);
                }
                floor = p;
                cur = p;
            }
            _ => return err("bad label type"),
        }
    }
}

fn read_rr(b: &[u8], o: usize) -> Result<(RR, usize), ParseError> {
    let (name, p) = read_name(b, o)?;
    if p + 10 > b.len() {
        return err("rr header eof");
    }
    let ty = u16_at(b, p)?;
    let class = u16_at(b, p + 2)?;
    let ttl = ((u16_at(b, p + 4)? as u32) << 16) | u16_at(b, p + 6)? as u32;
    let rdlen = u16_at(b, p + 8)? as usize;
    let rs = p + 10;
    let re = rs + rdlen;
    if re > b.len() {
        return err("rdata eof");
    }
    let rdata = match ty {
        T_A => {
            if rdlen != 4 {
                return err("A rdlen");
            }
            let mut o4 = [0u8; 4];
            o4.copy_from_slice(&b[rs..re]);
            RData::A(o4)
        }
        T_AAAA => {
            if rdlen != 16 {
                return err("AAAA rdlen");
            }
            let mut o16 = [0u8; 16];
            o16.copy_from_slice(&b[rs..re]);
            RData::Aaaa(o16)
        }
        T_PTR | T_CNAME => {
            let (n, e) = read_name(b, rs)?;
            if e != re {
                return err("PTR rdlen mismatch");
            }
            if ty == T_PTR {
                RData::Ptr(n)
            } else {
                RData::Cname(n)
            }
        }
        T_SRV => {
            if rdlen < 7 {
                return err("SRV rdlen");
            }
            let (n, e) = read_name(b, rs + 6)?;
            if e != re {
                return err("SRV rdlen mismatch");
            }
            RData::Srv {
                prio: u16_at(b, rs)?,
                weight: u16_at(b, rs + 2)?,
                port: u16_at(b, rs + 4)?,
                target: n,
            }
        }
        T_TXT => RData::Txt(b[rs..re].to_vec()),
        T_NSEC => {
            let (n, e) = read_name(b, rs)?;
            if e > re {
                return err("NSEC rdlen mismatch");
            }
            RData::Nsec {
                next: n,
                rest: b[e..re].to_vec(),
            }
        }
        _ => RData::Other(b[rs..re].to_vec()),
    };
    Ok((
        RR {
            name,
            ty,
            class: class & 0x7fff,
            flush: class & 0x8000 != 0,
            ttl,
            rdata,
            span: (o, re),
        },
        re,
    ))
}

pub fn parse(b: &[u8]) -> Result<Msg, ParseError> {
    if b.len() < 12 {
        return err("short header");
    }
    let mut m = Msg {
        id: u16_at(b, 0)?,
        flags: u16_at(b, 2)?,
        ..Default::default()
    };
    let (qd, an, ns, ar) = (
        u16_at(b, 4)?,
        u16_at(b, 6)?,
        u16_at(b, 8)?,
        u16_at(b, 10)?,
    );
    let mut o = 12;
    for _ in 0..qd {
        let (name, p) = read_name(b, o)?;
        if p + 4 > b.len() {
            return err("question eof");
        }
        m.questions.push(Question {
            name,
            ty: u16_at(b, p)?,
            class: u16_at(b, p + 2)?,
        });
        o = p + 4;
    }
    for (cnt, sec) in [(an, 0), (ns, 1), (ar, 2)] {
        for _ in 0..cnt {
            let (rr, e) = read_rr(b, o)?;
            match sec {
                0 => m.answers.push(rr),
                1 => m.authorities.push(rr),
                _ => m.additionals.push(rr),
            }
            o = e;
        }
    }
    if o != b.len() {
        return err("trailing bytes");
    }
    Ok(m)
}

// ---------------------------------------------------------------------------
// Writer
// ---------------------------------------------------------------------------

pub struct Writer {
    pub buf: Vec<u8>,
    compress: bool,
    dict: Vec<(Vec<Label>, usize)>,
}

impl Writer {
    pub fn new(compress: bool) -> Writer {
        Writer {
            buf: vec![0; 12],
            compress,
            dict: Vec::new(),
        }
    }

    fn put16(&mut self, v: u16) {
        self.buf.extend_from_slice(&v.to_be_bytes());
    }

    pub fn name(&mut self, n: &Name) {
        let ls = &n.0;
        for i in 0..ls.len() {
            let suffix = ls[i..].to_vec();
            if self.compress {
                if let Some((_, off)) = self.dict.iter().find(|(s, _)| *s == suffix) {
                    let p = 0xC000u16 | *off as u16;
                    self.put16(p);
                    return;
                }
            }
            if self.buf.len() < 0x3fff {
                self.dict.push((suffix, self.buf.len()));
            }
            self.buf.push(ls[i].len() as u8);
            self.buf.extend_from_slice(&ls[i]);
        }
        self.buf.push(0);
    }

    pub fn question(&mut self, q: &Question) {
        self.name(&q.name);
        self.put16(q.ty);
        self.put16(q.class);
    }

    pub fn rr(&mut self, r: &RR) {
        self.name(&r.name);
        self.put16(r.ty);
        self.put16(r.class | if r.flush { 0x8000 } else { 0 });
        self.buf.extend_from_slice(&r.ttl.to_be_bytes());
        let lp = self.buf.len();
        self.put16(0);
        match &r.rdata {
            RData::A(o) => self.buf.extend_from_slice(o),
            RData::Aaaa(o) => self.buf.extend_from_slice(o),
            RData::Ptr(n) | RData::Cname(n) => self.name(n),
            RData::Srv {
                prio,
                weight,
                port,
                target,
            } => {
                self.put16(*prio);
                self.put16(*weight);
                self.put16(*port);
                self.name(target);
            }
            RData::Txt(b) => self.buf.extend_from_slice(b),
            RData::Nsec { next, rest } => {
                self.name(next);
                self.buf.extend_from_slice(rest);
            }
            RData::Other(b) => self.buf.extend_from_slice(b),
        }
        let l = (self.buf.len() - lp - 2) as u16;
        self.buf[lp..lp + 2].copy_from_slice(&l.to_be_bytes());
    }
}

pub fn build(m: &Msg, compress: bool) -> Vec<u8> {
    let mut w = Writer::new(compress);
    for q in &m.questions {
        w.question(q);
    }
    for r in &m.answers {
        w.rr(r);
    }
    for r in &m.authorities {
        w.rr(r);
    }
    for r in &m.additionals {
        w.rr(r);
    }
    let mut b = w.buf;
    b[0..2].copy_from_slice(&m.id.to_be_bytes());
    b[2..4].copy_from_slice(&m.flags.to_be_bytes());
    b[4..6].copy_from_slice(&(m.questions.len() as u16).to_be_bytes());
    b[6..8].copy_from_slice(&(m.answers.len() as u16).to_be_bytes());
    b[8..10].copy_from_slice(&(m.authorities.len() as u16).to_be_bytes());
    b[10..12].copy_from_slice(&(m.additionals.len() as u16).to_be_bytes());
    b
}

pub fn query(questions: Vec<(Name, u16)>) -> Msg {
    Msg {
        id: 0,
        flags: 0,
        questions: questions
            .into_iter()
            .map(|(name, ty)| Question { name, ty, class: 1 })
            .collect(),
        ..Default::default()
    }
}

pub fn response(answers: Vec<RR>) -> Msg {
    Msg {
        id: 0,
        flags: 0x8400,
        answers,
        ..Default::default()
    }
}
