//! Harness side of the simulation layer: runs real `ServiceDaemon`s inside a
//! `mdns_sd::verif::World` (virtual clock, simulated interfaces, captured
//! egress, injected ingress, one loop iteration per permit) and writes the
//! NDJSON trace that the `Trace*.tla` monitors validate.
//!
//! The harness never looks inside the daemon: events come from the real
//! channel receivers, packets from the captured egress (parsed by wire.rs),
//! the wake-up request from the gate, counters from `get_metrics()`.

use crate::wire::{self, Msg};
use mdns_sd::verif::{self as fac, if_addrs, Parked, World};
use mdns_sd::{
    DaemonEvent, DaemonStatus, HostnameResolutionEvent, IfKind, Receiver, ScopedIp, ServiceDaemon,
    ServiceEvent, ServiceInfo, UnregisterStatus,
};
use serde_json::{json, Value};
use std::collections::HashMap;
use std::io::Write;
use std::net::{IpAddr, Ipv4Addr, Ipv6Addr, SocketAddr, SocketAddrV4, SocketAddrV6};
use std::sync::Arc;
use std::time::Duration;

pub const T0: u64 = 1_000_000;

#[derive(Clone, Debug)]
pub struct IfSpec {
    pub name: String,
    pub index: u32,
    pub addrs: Vec<(IpAddr, u8)>,
    pub up: bool,
}

fn mask4(p: u8) -> Ipv4Addr {
    let m: u32 = if p == 0 { 0 } else { u32::MAX << (32 - p as u32) };
    Ipv4Addr::from(m)
}
fn mask6(p: u8) -> Ipv6Addr {
    let m: u128 = if p == 0 { 0 } else { u128::MAX << (128 - p as u32) };
    Ipv6Addr::from(m)
}

pub fn to_interfaces(specs: &[IfSpec]) -> Vec<if_addrs::Interface> {
    let mut v = Vec::new();
    for s in specs {
        for (ip, p) in &s.addrs {
            let addr = match ip {
                IpAddr::V4(a) => if_addrs::IfAddr::V4(if_addrs::Ifv4Addr {
                    ip: *a,
                    netmask: mask4(*p),
                    prefixlen: *p,
                    broadcast: None,
                }),
                IpAddr::V6(a) => if_addrs::IfAddr::V6(if_addrs::Ifv6Addr {
                    ip: *a,
                    netmask: mask6(*p),
                    prefixlen: *p,
                    broadcast: None,
                }),
            };
            v.push(if_addrs::Interface {
                name: s.name.clone(),
                addr,
                index: Some(s.index),
                oper_status: if s.up { if_addrs::IfOperStatus::Up } else { if_addrs::IfOperStatus::Down },
                is_p2p: false,
            });
        }
    }
    v
}

pub fn ifs_json(specs: &[IfSpec]) -> Value {
    json!(specs
        .iter()
        .map(|s| json!({"name": s.name, "idx": s.index, "up": s.up,
            "addrs": s.addrs.iter().map(|(ip, p)| json!({"ip": ip.to_string(), "o": octets(ip), "p": p, "v4": ip.is_ipv4(), "lo": ip.is_loopback()})).collect::<Vec<_>>()}))
        .collect::<Vec<_>>())
}

pub fn octets(ip: &IpAddr) -> Vec<u8> {
    match ip {
        IpAddr::V4(a) => a.octets().to_vec(),
        IpAddr::V6(a) => a.octets().to_vec(),
    }
}

/// Network prefix as a string, so that the spec can decide "same subnet" by
/// comparing strings (the harness computes `net_of(addr, p)` for every
/// (address, interface prefix) pair it logs).
pub fn net_of(ip: &IpAddr, p: u8) -> String {
    match ip {
        IpAddr::V4(a) => format!("{}/{}", Ipv4Addr::from(u32::from(*a) & u32::from(mask4(p))), p),
        IpAddr::V6(a) => format!("{}/{}", Ipv6Addr::from(u128::from(*a) & u128::from(mask6(p))), p),
    }
}

pub enum ChanRx {
    Browse(Receiver<ServiceEvent>),
    Host(Receiver<HostnameResolutionEvent>),
    Monitor(Receiver<DaemonEvent>),
}

pub struct Chan {
    pub id: usize,
    pub rx: ChanRx,
}

pub enum Pending {
    Unreg(Receiver<UnregisterStatus>),
    Status(Receiver<DaemonStatus>),
    Metrics(Receiver<mdns_sd::Metrics>),
    Shutdown(Receiver<DaemonStatus>),
}

pub struct DaemonH {
    pub d: usize,
    pub host: usize,
    pub sd: ServiceDaemon,
    pub chans: Vec<Chan>,
    pub pending: Vec<(usize, Pending)>,
    pub wake: Option<u64>,
    pub pending_cmds: usize,
    pub alive: bool,
    pub iters: u64,
    /// datagrams are waiting in its ingress queue (a real poll() would return)
    pub has_ingress: bool,
    evbuf: Vec<Value>,
}

pub fn hexs(b: &[u8]) -> String {
    wire::hex(b)
}

fn txt_json(t: &mdns_sd::TxtProperties) -> Value {
    json!(t
        .iter()
        .map(|p| json!({"k": p.key(), "hv": p.val().is_some(), "v": hexs(p.val().unwrap_or(&[]))}))
        .collect::<Vec<_>>())
}

fn scoped_json(a: &ScopedIp) -> Value {
    match a {
        ScopedIp::V4(v4) => {
            let mut ifs: Vec<u32> = v4.interface_ids().iter().map(|i| i.index).collect();
            ifs.sort();
            json!({"ip": v4.addr().to_string(), "ifs": ifs, "v4": true})
        }
        ScopedIp::V6(v6) => json!({"ip": v6.addr().to_string(), "ifs": [v6.scope_id().index], "v4": false}),
        _ => json!({"ip": "?", "ifs": [], "v4": false}),
    }
}

fn addrs_json(s: &std::collections::HashSet<ScopedIp>) -> Value {
    let mut v: Vec<Value> = s.iter().map(scoped_json).collect();
    v.sort_by_key(|x| x.to_string());
    json!(v)
}

fn service_event_json(ch: usize, e: &ServiceEvent) -> Value {
    match e {
        ServiceEvent::SearchStarted(s) => json!({"ch": ch, "k": "SearchStarted", "s": s}),
        ServiceEvent::ServiceFound(ty, f) => json!({"ch": ch, "k": "ServiceFound", "ty": ty, "fn": f, "fnk": f.to_lowercase()}),
        ServiceEvent::ServiceResolved(r) => json!({"ch": ch, "k": "ServiceResolved", "ty": r.ty_domain,
            "sub": r.sub_ty_domain.clone().unwrap_or_default(), "fn": r.fullname, "fnk": r.fullname.to_lowercase(), "host": r.host, "hostk": r.host.to_lowercase(),
            "port": r.port, "addrs": addrs_json(&r.addresses), "txt": txt_json(&r.txt_properties)}),
        ServiceEvent::ServiceRemoved(ty, f) => json!({"ch": ch, "k": "ServiceRemoved", "ty": ty, "fn": f, "fnk": f.to_lowercase()}),
        ServiceEvent::SearchStopped(ty) => json!({"ch": ch, "k": "SearchStopped", "ty": ty}),
        _ => json!({"ch": ch, "k": "Other"}),
    }
}

fn host_event_json(ch: usize, e: &HostnameResolutionEvent) -> Value {
    match e {
        HostnameResolutionEvent::SearchStarted(s) => json!({"ch": ch, "k": "SearchStarted", "s": s}),
        HostnameResolutionEvent::AddressesFound(h, a) => json!({"ch": ch, "k": "AddressesFound", "host": h, "hostk": h.to_lowercase(), "addrs": addrs_json(a)}),
        HostnameResolutionEvent::AddressesRemoved(h, a) => json!({"ch": ch, "k": "AddressesRemoved", "host": h, "hostk": h.to_lowercase(), "addrs": addrs_json(a)}),
        HostnameResolutionEvent::SearchTimeout(h) => json!({"ch": ch, "k": "SearchTimeout", "host": h}),
        HostnameResolutionEvent::SearchStopped(h) => json!({"ch": ch, "k": "SearchStopped", "host": h}),
        _ => json!({"ch": ch, "k": "Other"}),
    }
}

fn daemon_event_json(ch: usize, e: &DaemonEvent) -> Value {
    match e {
        DaemonEvent::Announce(a, b) => json!({"ch": ch, "k": "Announce", "fn": a, "fnk": a.to_lowercase(), "s": b}),
        DaemonEvent::Error(er) => json!({"ch": ch, "k": "Error", "s": er.to_string()}),
        DaemonEvent::IpAdd(ip) => json!({"ch": ch, "k": "IpAdd", "ip": ip.to_string()}),
        DaemonEvent::IpDel(ip) => json!({"ch": ch, "k": "IpDel", "ip": ip.to_string()}),
        DaemonEvent::NameChange(c) => json!({"ch": ch, "k": "NameChange", "orig": c.original, "new": c.new_name,
            "origk": c.original.to_lowercase(), "newk": c.new_name.to_lowercase(),
            "ty": format!("{}", c.rr_type), "ifn": c.intf_name}),
        DaemonEvent::Respond(i) => json!({"ch": ch, "k": "Respond", "ifn": i}),
        _ => json!({"ch": ch, "k": "Other"}),
    }
}

impl DaemonH {
    /// Moves everything currently readable on the daemon's channels into the
    /// event buffer (must run while the daemon works: browse / resolver
    /// channels are bounded(10) with blocking sends).
    fn drain(&mut self) {
        for c in &self.chans {
            loop {
                let v = match &c.rx {
                    ChanRx::Browse(rx) => rx.try_recv().ok().map(|e| service_event_json(c.id, &e)),
                    ChanRx::Host(rx) => rx.try_recv().ok().map(|e| host_event_json(c.id, &e)),
                    ChanRx::Monitor(rx) => rx.try_recv().ok().map(|e| daemon_event_json(c.id, &e)),
                };
                match v {
                    Some(v) => self.evbuf.push(v),
                    None => break,
                }
            }
        }
    }
}

pub struct Sim {
    pub world: Arc<World>,
    pub hosts: Vec<Vec<IfSpec>>,
    /// links[k] = the (host, if_index) pairs attached to link k
    pub links: Vec<Vec<(usize, u32)>>,
    pub daemons: Vec<DaemonH>,
    pub out: Vec<Value>,
    pub loopback_own: bool,
    next_chan: usize,
    next_call: usize,
    pub hung: bool,
    /// replies of API calls seen so far: call id -> value
    pub replies: HashMap<usize, Value>,
    pub last_metrics: HashMap<String, i64>,
    /// every parsed packet sent so far: (daemon, interface, v4, multicast, message); drivers drain it
    pub sent_log: Vec<(usize, u32, bool, bool, Msg)>,
    /// every event seen so far (drivers drain it)
    pub event_log: Vec<Value>,
    /// consecutive iterations without any output whose requested wake-up is not more than 1 ms ahead
    pub idle_streak: u32,
}

pub fn now_rel(w: &World) -> u64 {
    w.now() - T0
}

impl Sim {
    pub fn new(scen: Value, seed: u64, hosts: Vec<Vec<IfSpec>>, links: Vec<Vec<(usize, u32)>>) -> Sim {
        let world = World::new(T0, seed);
        for h in &hosts {
            world.add_host(to_interfaces(h));
        }
        let mut s = Sim {
            world,
            hosts,
            links,
            daemons: Vec::new(),
            out: Vec::new(),
            loopback_own: false,
            next_chan: 1,
            next_call: 1,
            hung: false,
            replies: HashMap::new(),
            last_metrics: HashMap::new(),
            sent_log: Vec::new(),
            event_log: Vec::new(),
            idle_streak: 0,
        };
        let hj: Vec<Value> = s.hosts.iter().map(|h| ifs_json(h)).collect();
        s.log(json!({"e": "reset", "scen": scen, "seed": seed, "hosts": hj}));
        s
    }

    pub fn t(&self) -> u64 {
        now_rel(&self.world)
    }

    pub fn log(&mut self, mut v: Value) {
        let t = self.t();
        v.as_object_mut().unwrap().insert("t".into(), json!(t));
        self.out.push(v);
    }

    /// Creates a daemon on `host`; it runs its start-up up to the first park.
    pub fn spawn(&mut self, host: usize) -> usize {
        self.world.enter(host);
        let sd = ServiceDaemon::new().expect("ServiceDaemon::new");
        let d = self.world.daemon_count() - 1;
        self.daemons.push(DaemonH {
            d,
            host,
            sd,
            chans: Vec::new(),
            pending: Vec::new(),
            wake: None,
            pending_cmds: 0,
            alive: true,
            iters: 0,
            has_ingress: false,
            evbuf: Vec::new(),
        });
        let idx = self.daemons.len() - 1;
        self.log(json!({"e": "spawn", "d": idx, "host": host}));
        self.finish_park(idx, true);
        idx
    }

    pub fn set_ifs(&mut self, host: usize, specs: Vec<IfSpec>) {
        self.world.set_interfaces(host, to_interfaces(&specs));
        self.hosts[host] = specs;
        let j = ifs_json(&self.hosts[host]);
        self.log(json!({"e": "ifs", "host": host, "ifs": j}));
    }

    pub fn advance_to(&mut self, t_rel: u64, why: &str) {
        let cur = self.t();
        if t_rel > cur {
            self.world.set_now(T0 + t_rel);
            self.log(json!({"e": "adv", "why": why}));
        }
    }

    fn if_name(&self, host: usize, idx: u32) -> String {
        self.hosts[host].iter().find(|i| i.index == idx).map(|i| i.name.clone()).unwrap_or_default()
    }

    /// Waits for daemon `i` to park (draining its channels meanwhile), then
    /// records the `iter` line with everything it did since the last park.
    fn finish_park(&mut self, i: usize, startup: bool) {
        let d = self.daemons[i].d;
        let deadline = std::time::Instant::now() + Duration::from_secs(20);
        let parked = loop {
            self.daemons[i].drain();
            match self.world.wait_parked(d, Duration::from_millis(2)) {
                Parked::Timeout => {
                    if std::time::Instant::now() > deadline {
                        break Parked::Timeout;
                    }
                }
                p => break p,
            }
        };
        self.daemons[i].drain();
        let mut alive = true;
        let mut panicked = false;
        match parked {
            Parked::AtGate { wake, pending_cmds } => {
                self.daemons[i].wake = wake;
                self.daemons[i].pending_cmds = pending_cmds;
            }
            Parked::Dead { panicked: p } => {
                alive = false;
                panicked = p;
                self.daemons[i].alive = false;
                self.daemons[i].wake = None;
                self.daemons[i].pending_cmds = 0;
                // a dead daemon closes its channels; read what is left
                self.daemons[i].drain();
            }
            Parked::Timeout => {
                self.hung = true;
                self.daemons[i].alive = false;
            }
            Parked::InExitWindow => {
                self.daemons[i].wake = None;
                self.daemons[i].pending_cmds = 0;
            }
        }
        let win = matches!(parked, Parked::InExitWindow);
        // replies of earlier calls
        let mut replies = Vec::new();
        let mut still = Vec::new();
        let pend = std::mem::take(&mut self.daemons[i].pending);
        for (cid, p) in pend {
            let r: Option<Value> = match &p {
                Pending::Unreg(rx) => match rx.try_recv() {
                    Ok(UnregisterStatus::OK) => Some(json!("OK")),
                    Ok(UnregisterStatus::NotFound) => Some(json!("NotFound")),
                    Err(flume::TryRecvError::Disconnected) => Some(json!("closed")),
                    Err(flume::TryRecvError::Empty) => None,
                },
                Pending::Status(rx) | Pending::Shutdown(rx) => match rx.try_recv() {
                    Ok(DaemonStatus::Running) => Some(json!("Running")),
                    Ok(DaemonStatus::Shutdown) => Some(json!("Shutdown")),
                    Ok(_) => Some(json!("other")),
                    Err(flume::TryRecvError::Disconnected) => Some(json!("closed")),
                    Err(flume::TryRecvError::Empty) => None,
                },
                Pending::Metrics(rx) => match rx.try_recv() {
                    Ok(m) => {
                        self.last_metrics = m.clone();
                        Some(json!(m))
                    }
                    Err(flume::TryRecvError::Disconnected) => Some(json!("closed")),
                    Err(flume::TryRecvError::Empty) => None,
                },
            };
            let kind = match &p {
                Pending::Unreg(_) => "unreg",
                Pending::Status(_) => "status",
                Pending::Metrics(_) => "metrics",
                Pending::Shutdown(_) => "shutdown",
            };
            match r {
                Some(v) => {
                    self.replies.insert(cid, v.clone());
                    let kind = if v == json!("closed") { "closed" } else { kind };
                    replies.push(json!({"call": cid, "k": kind, "v": v}));
                }
                None => still.push((cid, p)),
            }
        }
        self.daemons[i].pending = still;
        // packets
        let host = self.daemons[i].host;
        let eg: Vec<fac::Egress> = self.world.take_egress();
        let mut sent = Vec::new();
        let mut mine = Vec::new();
        for e in eg {
            if e.daemon == d {
                mine.push(e);
            }
        }
        for e in &mine {
            let parsed = wire::parse(&e.bytes);
            let mc = e.dest.ip().is_multicast();
            if let Ok(m) = &parsed {
                self.sent_log.push((i, e.out_if.unwrap_or(0), e.v4, mc, m.clone()));
            }
            sent.push(json!({
                "if": e.out_if.unwrap_or(0), "ifn": self.if_name(host, e.out_if.unwrap_or(0)),
                "v4": e.v4, "dst": e.dest.ip().to_string(), "port": e.dest.port(), "mc": mc,
                "len": e.bytes.len(), "ok": parsed.is_ok(),
                "m": parsed.as_ref().map(|m| m.to_json()).unwrap_or(json!({})),
            }));
        }
        let events = std::mem::take(&mut self.daemons[i].evbuf);
        self.event_log.extend(events.iter().cloned());
        self.daemons[i].iters += 1;
        let wake = self.daemons[i].wake.map(|w| w as i64 - T0 as i64).unwrap_or(-1);
        let idle = sent.is_empty() && events.is_empty() && replies.is_empty();
        if idle && wake >= 0 && (wake as u64) <= self.t() + 1 {
            self.idle_streak += 1;
        } else {
            self.idle_streak = 0;
        }
        // what the loop held for later when it parked (hook `publish_loop`): the timer heap (count, the earliest 40) and
        // the queued re-runs; only meaningful while the daemon is parked at its gate
        let (timers, reruns) = self.world.loop_state(self.daemons[i].d);
        let parked_ok = alive && matches!(parked, Parked::AtGate { .. });
        let tm: Vec<i64> = timers.iter().take(40).map(|t| *t as i64 - T0 as i64).collect();
        let rr: Vec<Value> = reruns.iter().map(|(t, k, key, n)| json!({"t": *t as i64 - T0 as i64, "k": k, "key": key, "keyk": key.to_lowercase(), "n": n})).collect();
        let line = json!({"e": "iter", "d": i, "startup": startup, "sent": sent, "events": events, "replies": replies,
            "wake": wake, "pend": self.daemons[i].pending_cmds, "alive": alive, "panicked": panicked,
            "hung": matches!(parked, Parked::Timeout), "win": win, "closed": self.closed_chans(i),
            "loop": parked_ok, "ntm": timers.len(), "tm": tm, "rr": rr});
        self.log(line);
        if !alive || self.hung {
            self.log(json!({"e": "dead", "d": i, "panicked": panicked, "hung": self.hung}));
        }
        // carry multicast datagrams to the other daemons on the same link
        for e in mine {
            self.route(i, &e);
        }
    }

    fn src_addr(&self, host: usize, if_index: u32, v4: bool) -> Option<IpAddr> {
        self.hosts[host]
            .iter()
            .find(|i| i.index == if_index)
            .and_then(|i| i.addrs.iter().find(|(a, _)| a.is_ipv4() == v4).map(|(a, _)| *a))
    }

    fn route(&mut self, from: usize, e: &fac::Egress) {
        if self.daemons.len() < 2 && !self.loopback_own {
            return;
        }
        if !e.dest.ip().is_multicast() {
            return;
        }
        let Some(oif) = e.out_if else { return };
        let host = self.daemons[from].host;
        let Some(link) = self.links.iter().find(|l| l.contains(&(host, oif))).cloned() else { return };
        let Some(src_ip) = self.src_addr(host, oif, e.v4) else { return };
        let src = match src_ip {
            IpAddr::V4(a) => SocketAddr::V4(SocketAddrV4::new(a, 5353)),
            IpAddr::V6(a) => SocketAddr::V6(SocketAddrV6::new(a, 5353, 0, oif)),
        };
        let targets: Vec<(usize, u32)> = (0..self.daemons.len())
            .filter(|j| self.daemons[*j].alive && (*j != from || self.loopback_own))
            .flat_map(|j| {
                let h = self.daemons[j].host;
                link.iter().filter(move |(lh, _)| *lh == h).map(move |(_, li)| (j, *li)).collect::<Vec<_>>()
            })
            .collect();
        for (j, li) in targets {
            let parsed = wire::parse(&e.bytes).ok();
            self.deliver_raw(j, li, e.v4, src, e.bytes.clone(), parsed, "peer");
        }
    }

    pub fn deliver_raw(&mut self, i: usize, if_index: u32, v4: bool, src: SocketAddr, bytes: Vec<u8>, parsed: Option<Msg>, origin: &str) {
        let d = self.daemons[i].d;
        let line = json!({"e": "deliver", "d": i, "if": if_index, "v4": v4, "src": src.ip().to_string(), "sport": src.port(),
            "len": bytes.len(), "origin": origin, "ok": parsed.is_some(),
            "m": parsed.as_ref().map(|m| m.to_json()).unwrap_or(json!({}))});
        self.world.inject(d, v4, if_index, src, None, bytes);
        self.daemons[i].has_ingress = true;
        self.log(line);
    }

    /// Injects a message built by the independent writer.
    pub fn deliver(&mut self, i: usize, if_index: u32, src: SocketAddr, m: &Msg, compress: bool) {
        let bytes = wire::build(m, compress);
        self.deliver_raw(i, if_index, src.is_ipv4(), src, bytes, Some(m.clone()), "script");
    }

    /// One loop iteration of daemon `i`.
    pub fn step(&mut self, i: usize) {
        if !self.daemons[i].alive {
            return;
        }
        let d = self.daemons[i].d;
        self.daemons[i].has_ingress = false;
        self.world.grant(d);
        self.finish_park(i, false);
    }

    /// Does daemon `i` want to run right now (as a real poll() would return)?
    pub fn runnable(&self, i: usize) -> bool {
        let dh = &self.daemons[i];
        dh.alive && (dh.has_ingress || dh.pending_cmds > 0 || dh.wake.map_or(false, |w| w <= self.world.now()))
    }

    /// Steps every daemon until none is runnable at the current instant.
    /// Returns the number of iterations; bounded so that a spinning daemon
    /// (wake-up not in the future, forever) cannot hang the harness.
    pub fn settle(&mut self, cap: usize) -> usize {
        let mut n = 0;
        loop {
            let mut any = false;
            for i in 0..self.daemons.len() {
                if self.runnable(i) && n < cap {
                    self.step(i);
                    n += 1;
                    any = true;
                }
            }
            if !any || n >= cap {
                return n;
            }
        }
    }

    /// An input (datagram or command) wakes the daemon: one iteration, then settle.
    pub fn kick(&mut self, i: usize) {
        self.step(i);
        self.settle(40);
    }

    /// Policy W: lets virtual time pass up to `t_end`, waking each daemon
    /// exactly when it asked to be woken (like a silent network would).
    pub fn run_until(&mut self, t_end: u64) {
        loop {
            self.settle(60);
            match self.next_wake() {
                Some(w) if w <= t_end => {
                    if w > self.t() {
                        self.advance_to(w, "wake");
                    } else {
                        // wake-up not in the future although settle() gave up: spinning
                        let t = self.t() + 1;
                        self.advance_to(t, "spin");
                    }
                }
                _ => {
                    self.advance_to(t_end, "script");
                    self.settle(60);
                    return;
                }
            }
            if self.hung || self.idle_streak >= 40 {
                return;
            }
        }
    }

    pub fn next_wake(&self) -> Option<u64> {
        self.daemons.iter().filter(|d| d.alive).filter_map(|d| d.wake).min().map(|w| w.saturating_sub(T0))
    }


    /// Event channels whose sender side is gone.
    pub fn closed_chans(&self, i: usize) -> Vec<usize> {
        self.daemons[i]
            .chans
            .iter()
            .filter(|c| match &c.rx {
                ChanRx::Browse(rx) => rx.is_disconnected(),
                ChanRx::Host(rx) => rx.is_disconnected(),
                ChanRx::Monitor(rx) => rx.is_disconnected(),
            })
            .map(|c| c.id)
            .collect()
    }

    /// Asks the daemon to stop in its exit window (after Exit was processed
    /// and the queue drained, before the receiver is dropped).
    pub fn hold_exit(&mut self, i: usize, on: bool) {
        let d = self.daemons[i].d;
        self.world.hold_exit(d, on);
    }

    /// Lets a daemon held in its exit window run to the end of its thread.
    pub fn release_exit(&mut self, i: usize) {
        let d = self.daemons[i].d;
        self.world.hold_exit(d, false);
        self.finish_park(i, false);
    }

    /// State of every reply receiver that has not yielded anything yet, and of
    /// every event channel: what a client blocked in recv() would see now.
    pub fn final_state(&mut self, i: usize) -> Value {
        let mut pend = Vec::new();
        for (cid, p) in &self.daemons[i].pending {
            let st = match p {
                Pending::Unreg(rx) => match rx.try_recv() { Ok(_) => "value", Err(flume::TryRecvError::Disconnected) => "closed", Err(flume::TryRecvError::Empty) => "empty" },
                Pending::Status(rx) | Pending::Shutdown(rx) => match rx.try_recv() {
                    Ok(mdns_sd::DaemonStatus::Shutdown) => "Shutdown",
                    Ok(mdns_sd::DaemonStatus::Running) => "Running",
                    Ok(_) => "value",
                    Err(flume::TryRecvError::Disconnected) => "closed",
                    Err(flume::TryRecvError::Empty) => "empty",
                },
                Pending::Metrics(rx) => match rx.try_recv() { Ok(_) => "value", Err(flume::TryRecvError::Disconnected) => "closed", Err(flume::TryRecvError::Empty) => "empty" },
            };
            pend.push(json!({"call": cid, "st": st}));
        }
        self.daemons[i].drain();
        let late = std::mem::take(&mut self.daemons[i].evbuf);
        let mut chans = Vec::new();
        for c in &self.daemons[i].chans {
            let closed = match &c.rx {
                ChanRx::Browse(rx) => rx.is_disconnected(),
                ChanRx::Host(rx) => rx.is_disconnected(),
                ChanRx::Monitor(rx) => rx.is_disconnected(),
            };
            chans.push(json!({"ch": c.id, "closed": closed}));
        }
        json!({"pending": pend, "late_events": late, "chans": chans})
    }

    // ---------------------------------------------------------------- calls

    fn call_id(&mut self) -> usize {
        let c = self.next_call;
        self.next_call += 1;
        c
    }

    fn res_kind<T>(r: &std::thread::Result<mdns_sd::Result<T>>) -> String {
        match r {
            Err(_) => "panic".into(),
            Ok(Ok(_)) => "ok".into(),
            Ok(Err(mdns_sd::Error::Again)) => "Again".into(),
            Ok(Err(mdns_sd::Error::DaemonShutdown)) => "DaemonShutdown".into(),
            Ok(Err(mdns_sd::Error::Msg(_))) => "Msg".into(),
            Ok(Err(mdns_sd::Error::ParseIpAddr(_))) => "ParseIpAddr".into(),
            Ok(Err(_)) => "Err".into(),
        }
    }

    fn log_call(&mut self, i: usize, cid: usize, f: &str, args: Value, res: String, ch: Option<usize>) {
        self.log(json!({"e": "call", "d": i, "id": cid, "fn": f, "args": args, "res": res, "ch": ch.unwrap_or(0)}));
    }

    pub fn browse(&mut self, i: usize, ty: &str, cache_only: bool) -> Option<usize> {
        let cid = self.call_id();
        let sd = self.daemons[i].sd.clone();
        let t = ty.to_string();
        let r = std::panic::catch_unwind(std::panic::AssertUnwindSafe(|| if cache_only { sd.browse_cache(&t) } else { sd.browse(&t) }));
        let res = Self::res_kind(&r);
        let mut ch = None;
        if let Ok(Ok(rx)) = r {
            let id = self.next_chan;
            self.next_chan += 1;
            self.daemons[i].chans.push(Chan { id, rx: ChanRx::Browse(rx) });
            ch = Some(id);
        }
        self.log_call(i, cid, if cache_only { "browse_cache" } else { "browse" }, json!({"ty": ty, "tyk": ty.to_lowercase()}), res, ch);
        ch
    }

    pub fn stop_browse(&mut self, i: usize, ty: &str) {
        let cid = self.call_id();
        let sd = self.daemons[i].sd.clone();
        let t = ty.to_string();
        let r = std::panic::catch_unwind(std::panic::AssertUnwindSafe(|| sd.stop_browse(&t)));
        self.log_call(i, cid, "stop_browse", json!({"ty": ty, "tyk": ty.to_lowercase()}), Self::res_kind(&r), None);
    }

    pub fn resolve_hostname(&mut self, i: usize, host: &str, timeout: Option<u64>) -> Option<usize> {
        let cid = self.call_id();
        let sd = self.daemons[i].sd.clone();
        let h = host.to_string();
        let r = std::panic::catch_unwind(std::panic::AssertUnwindSafe(|| sd.resolve_hostname(&h, timeout)));
        let res = Self::res_kind(&r);
        let mut ch = None;
        if let Ok(Ok(rx)) = r {
            let id = self.next_chan;
            self.next_chan += 1;
            self.daemons[i].chans.push(Chan { id, rx: ChanRx::Host(rx) });
            ch = Some(id);
        }
        self.log_call(i, cid, "resolve_hostname", json!({"host": host, "hostk": host.to_lowercase(),
            "timeout": timeout.map(|x| x as i64).unwrap_or(-1)}), res, ch);
        ch
    }

    pub fn stop_resolve_hostname(&mut self, i: usize, host: &str) {
        let cid = self.call_id();
        let sd = self.daemons[i].sd.clone();
        let h = host.to_string();
        let r = std::panic::catch_unwind(std::panic::AssertUnwindSafe(|| sd.stop_resolve_hostname(&h)));
        self.log_call(i, cid, "stop_resolve_hostname", json!({"host": host, "hostk": host.to_lowercase()}), Self::res_kind(&r), None);
    }

    pub fn monitor(&mut self, i: usize) -> Option<usize> {
        let cid = self.call_id();
        let sd = self.daemons[i].sd.clone();
        let r = std::panic::catch_unwind(std::panic::AssertUnwindSafe(|| sd.monitor()));
        let res = Self::res_kind(&r);
        let mut ch = None;
        if let Ok(Ok(rx)) = r {
            let id = self.next_chan;
            self.next_chan += 1;
            self.daemons[i].chans.push(Chan { id, rx: ChanRx::Monitor(rx) });
            ch = Some(id);
        }
        self.log_call(i, cid, "monitor", json!({}), res, ch);
        ch
    }

    pub fn register(&mut self, i: usize, info: ServiceInfo) -> String {
        let cid = self.call_id();
        let mut addrs: Vec<IpAddr> = info.get_addresses().iter().copied().collect();
        addrs.sort();
        let addrs: Vec<Value> = addrs.iter().map(|a| json!({"ip": a.to_string(), "o": octets(a), "v4": a.is_ipv4()})).collect();
        let args = json!({
            "fn": info.get_fullname(), "fnk": info.get_fullname().to_lowercase(),
            "fnl": wire::Name::from_escaped(info.get_fullname()).to_json(),
            "ty": info.get_type(), "tyk": info.get_type().to_lowercase(),
            "sub": info.get_subtype().clone().unwrap_or_default(), "subk": info.get_subtype().clone().unwrap_or_default().to_lowercase(),
            "srvrk": format!("{} {} {} {}", info.get_priority(), info.get_weight(), info.get_port(), info.get_hostname()),
            "srvpre": format!("{} {} {} ", info.get_priority(), info.get_weight(), info.get_port()),
            "host": info.get_hostname(), "hostk": info.get_hostname().to_lowercase(),
            "port": info.get_port(), "addrs": addrs, "auto": info.is_addr_auto(), "probe": info.requires_probe(),
            "txt": txt_json(info.get_properties()), "txtx": hexs(&fac::generate_txt(&info)),
            "hostttl": info.get_host_ttl(), "otherttl": info.get_other_ttl(),
            "prio": info.get_priority(), "weight": info.get_weight(),
        });
        let sd = self.daemons[i].sd.clone();
        let r = std::panic::catch_unwind(std::panic::AssertUnwindSafe(|| sd.register(info)));
        let res = Self::res_kind(&r);
        self.log_call(i, cid, "register", args, res.clone(), None);
        res
    }

    pub fn unregister(&mut self, i: usize, fullname: &str) -> usize {
        let cid = self.call_id();
        let sd = self.daemons[i].sd.clone();
        let f = fullname.to_string();
        let r = std::panic::catch_unwind(std::panic::AssertUnwindSafe(|| sd.unregister(&f)));
        let res = Self::res_kind(&r);
        if let Ok(Ok(rx)) = r {
            self.daemons[i].pending.push((cid, Pending::Unreg(rx)));
        }
        self.log_call(i, cid, "unregister", json!({"fn": fullname, "fnk": fullname.to_lowercase()}), res, None);
        cid
    }

    pub fn verify(&mut self, i: usize, fullname: &str, timeout_ms: u64) {
        let cid = self.call_id();
        let sd = self.daemons[i].sd.clone();
        let f = fullname.to_string();
        let r = std::panic::catch_unwind(std::panic::AssertUnwindSafe(|| sd.verify(f, Duration::from_millis(timeout_ms))));
        self.log_call(i, cid, "verify", json!({"fn": fullname, "fnk": fullname.to_lowercase(), "timeout": timeout_ms}), Self::res_kind(&r), None);
    }

    pub fn get_metrics(&mut self, i: usize) -> usize {
        let cid = self.call_id();
        let sd = self.daemons[i].sd.clone();
        let r = std::panic::catch_unwind(std::panic::AssertUnwindSafe(|| sd.get_metrics()));
        let res = Self::res_kind(&r);
        if let Ok(Ok(rx)) = r {
            self.daemons[i].pending.push((cid, Pending::Metrics(rx)));
        }
        self.log_call(i, cid, "get_metrics", json!({}), res, None);
        cid
    }

    pub fn status(&mut self, i: usize) -> usize {
        let cid = self.call_id();
        let sd = self.daemons[i].sd.clone();
        let r = std::panic::catch_unwind(std::panic::AssertUnwindSafe(|| sd.status()));
        let res = Self::res_kind(&r);
        if let Ok(Ok(rx)) = r {
            self.daemons[i].pending.push((cid, Pending::Status(rx)));
        }
        self.log_call(i, cid, "status", json!({}), res, None);
        cid
    }

    pub fn shutdown(&mut self, i: usize) -> usize {
        let cid = self.call_id();
        let sd = self.daemons[i].sd.clone();
        let r = std::panic::catch_unwind(std::panic::AssertUnwindSafe(|| sd.shutdown()));
        let res = Self::res_kind(&r);
        if let Ok(Ok(rx)) = r {
            self.daemons[i].pending.push((cid, Pending::Shutdown(rx)));
        }
        self.log_call(i, cid, "shutdown", json!({}), res, None);
        cid
    }

    pub fn set_ip_check_interval(&mut self, i: usize, secs: u32) {
        let cid = self.call_id();
        let sd = self.daemons[i].sd.clone();
        let r = std::panic::catch_unwind(std::panic::AssertUnwindSafe(|| sd.set_ip_check_interval(secs)));
        self.log_call(i, cid, "set_ip_check_interval", json!({"secs": secs.min(i32::MAX as u32)}), Self::res_kind(&r), None);
    }

    pub fn accept_unsolicited(&mut self, i: usize, on: bool) {
        let cid = self.call_id();
        let sd = self.daemons[i].sd.clone();
        let r = std::panic::catch_unwind(std::panic::AssertUnwindSafe(|| sd.accept_unsolicited(on)));
        self.log_call(i, cid, "accept_unsolicited", json!({"on": on}), Self::res_kind(&r), None);
    }

    pub fn if_select(&mut self, i: usize, enable: bool, kind: IfKind, desc: Value) {
        let cid = self.call_id();
        let sd = self.daemons[i].sd.clone();
        let r = std::panic::catch_unwind(std::panic::AssertUnwindSafe(|| if enable { sd.enable_interface(kind) } else { sd.disable_interface(kind) }));
        self.log_call(i, cid, if enable { "enable_interface" } else { "disable_interface" }, desc, Self::res_kind(&r), None);
    }

    /// Ends every daemon thread of this world (so that sockets and threads do
    /// not pile up over thousands of scenarios) and returns the trace lines.
    pub fn finish(mut self) -> Vec<Value> {
        for i in 0..self.daemons.len() {
            if self.daemons[i].alive {
                let _ = self.daemons[i].sd.shutdown();
                let d = self.daemons[i].d;
                self.world.set_free_run(d, true);
            }
        }
        let deadline = std::time::Instant::now() + Duration::from_secs(5);
        for i in 0..self.daemons.len() {
            let d = self.daemons[i].d;
            while !self.world.is_dead(d) && std::time::Instant::now() < deadline {
                self.daemons[i].drain();
                std::thread::sleep(Duration::from_millis(1));
            }
        }
        World::leave();
        self.out
    }
}

pub fn write_trace(path: &str, lines: &[Value]) {
    let mut f = std::io::BufWriter::new(std::fs::File::create(path).expect("create trace"));
    for l in lines {
        writeln!(f, "{}", l).unwrap();
    }
    f.flush().unwrap();
}

pub fn v4(a: u8, b: u8, c: u8, d: u8) -> IpAddr {
    IpAddr::V4(Ipv4Addr::new(a, b, c, d))
}

pub fn sock4(a: u8, b: u8, c: u8, d: u8, port: u16) -> SocketAddr {
    SocketAddr::V4(SocketAddrV4::new(Ipv4Addr::new(a, b, c, d), port))
}
