use crate::sim::*;
use crate::wire::{self, Name, RData, RR};
use serde_json::json;

pub fn run(out: &str) {
    let host = vec![IfSpec { name: "eth0".into(), index: 2, addrs: vec![(v4(192, 168, 1, 10), 24)], up: true }];
    let mut s = Sim::new(json!({"family": "smoke"}), 7, vec![host], vec![vec![(0, 2)]]);
    let d = s.spawn(0);
    let _mon = s.monitor(d);
    s.kick(d);
    let info = mdns_sd::ServiceInfo::new("_http._tcp.local.", "web", "myhost.local.", "192.168.1.10", 8080,
        &[("path", "/")][..]).unwrap();
    s.register(d, info);
    s.kick(d);
    let ch = s.browse(d, "_ipp._tcp.local.", false);
    s.kick(d);
    // a remote printer announces itself
    let inst = Name::from_labels(&["Printer", "_ipp", "_tcp", "local"]);
    let ty = Name::from_labels(&["_ipp", "_tcp", "local"]);
    let h = Name::from_labels(&["prn", "local"]);
    let m = wire::response(vec![
        RR::new(ty.clone(), false, 4500, RData::Ptr(inst.clone())),
        RR::new(inst.clone(), true, 120, RData::Srv { prio: 0, weight: 0, port: 631, target: h.clone() }),
        RR::new(inst.clone(), true, 4500, RData::Txt(vec![4, b'a', b'=', b'b', b'c'])),
        RR::new(h.clone(), true, 120, RData::A([192, 168, 1, 77])),
    ]);
    s.advance_to(300, "script");
    s.deliver(d, 2, sock4(192, 168, 1, 77, 5353), &m, true);
    s.kick(d);
    // run on the daemon's own wake-ups for 10 s
    while let Some(w) = s.next_wake() {
        if w > 10_000 { break; }
        s.advance_to(w, "wake");
        s.settle(50);
    }
    let _ = ch;
    let lines = s.finish();
    write_trace(out, &lines);
    println!("{}", json!({"summary": {"lines": lines.len()}}));
}
