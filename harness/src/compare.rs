//! C08 (comparison and renaming parts), spec -> implementation: the record-list
//! pairs enumerated by TLC (MCCompare) are pushed through the crate's real
//! `Probe::tiebreaking` from both sides; the renaming functions are run on
//! names with existing suffixes, escaped dots and long labels.

use crate::conflict::{next_host_name, next_instance_name};
use crate::wire::{self, Name, RData, RR};
use mdns_sd::verif as fac;
use serde_json::{json, Value};
use std::io::Write;
use std::net::IpAddr;

fn addr_of(rd: &[u8]) -> [u8; 4] {
    // order-preserving embedding of the model's short RDATA values into IPv4 addresses
    let mut o = [0u8; 4];
    o[0] = rd[0];
    if rd.len() > 1 {
        o[3] = 1 + rd[1];
    }
    o
}

fn boxed(name: &str, r: &Value) -> fac::DnsRecordBox {
    let cls = r["cls"].as_u64().unwrap() as u16;
    let rd: Vec<u8> = r["rd"].as_array().unwrap().iter().map(|x| x.as_u64().unwrap() as u8).collect();
    match r["ty"].as_u64().unwrap() {
        1 => fac::address_record(name, cls, 120, IpAddr::from(addr_of(&rd)), "sim0", 2),
        _ => fac::txt_record(name, cls, 4500, rd),
    }
}

fn wire_rr(name: &Name, r: &Value) -> RR {
    let cls = r["cls"].as_u64().unwrap() as u16;
    let rd: Vec<u8> = r["rd"].as_array().unwrap().iter().map(|x| x.as_u64().unwrap() as u8).collect();
    let mut rr = match r["ty"].as_u64().unwrap() {
        1 => RR::new(name.clone(), false, 120, RData::A(addr_of(&rd))),
        _ => RR::new(name.clone(), false, 4500, RData::Txt(rd)),
    };
    rr.class = cls;
    rr
}

fn loses(mine: &Value, theirs: &Value) -> Value {
    let name = "n.local.";
    let nm = Name::from_escaped(name);
    let mine_b: Vec<fac::DnsRecordBox> = mine.as_array().unwrap().iter().map(|r| boxed(name, r)).collect();
    let mut q = wire::query(vec![(nm.clone(), wire::T_ANY)]);
    q.authorities = theirs.as_array().unwrap().iter().map(|r| wire_rr(&nm, r)).collect();
    let bytes = wire::build(&q, true);
    let r = std::panic::catch_unwind(std::panic::AssertUnwindSafe(move || fac::tiebreak_loses(mine_b, bytes, name)));
    match r {
        Ok(Ok(b)) => json!(if b { "lose" } else { "keep" }),
        Ok(Err(_)) => json!("error"),
        Err(_) => json!("panic"),
    }
}

pub fn drive(cases: &str, out_path: &str) -> Value {
    std::panic::set_hook(Box::new(|_| {}));
    // the tiebreak reads the clock: give this thread a virtual one
    let w = fac::World::new(1_000_000, 1);
    w.add_host(vec![]);
    w.enter(0);
    let mut f = std::io::BufWriter::new(std::fs::File::create(out_path).expect("create trace"));
    let txt = std::fs::read_to_string(cases).unwrap_or_default();
    let mut n = 0usize;
    let mut distinct = std::collections::HashSet::new();
    for line in txt.lines().filter(|l| !l.trim().is_empty()) {
        let c: Value = serde_json::from_str(line).expect("case");
        let v = json!({"e": "tiebreak", "id": n, "a": c["a"], "b": c["b"],
            "a_out": loses(&c["a"], &c["b"]), "b_out": loses(&c["b"], &c["a"])});
        if c["a"] != c["b"] {
            distinct.insert(format!("{}{}", c["a"], c["b"]));
        }
        writeln!(f, "{}", v).unwrap();
        n += 1;
    }
    // renaming
    let inst_cases: Vec<String> = vec![
        "foo._http._tcp.local.".into(), "foo (2)._http._tcp.local.".into(), "foo (9)._http._tcp.local.".into(),
        "foo (99)._http._tcp.local.".into(), "foo (x)._http._tcp.local.".into(), "foo (2) bar._http._tcp.local.".into(),
        "Dot\\.ted._http._tcp.local.".into(), "Dot\\.ted (2)._http._tcp.local.".into(), "back\\\\slash._http._tcp.local.".into(),
        "Caf\u{e9}._http._tcp.local.".into(), format!("{}._http._tcp.local.", "x".repeat(58)), format!("{}._http._tcp.local.", "x".repeat(59)),
        format!("{}._http._tcp.local.", "x".repeat(60)), format!("{}._http._tcp.local.", "x".repeat(63)),
        format!("{} (9)._http._tcp.local.", "y".repeat(59)), " (2)._http._tcp.local.".into(),
    ];
    let host_cases: Vec<String> = vec![
        "foo.local.".into(), "foo-2.local.".into(), "foo-9.local.".into(), "foo-bar.local.".into(), "foo-bar-3.local.".into(),
        "a.b.local.".into(), format!("{}.local.", "h".repeat(61)), format!("{}.local.", "h".repeat(62)), format!("{}.local.", "h".repeat(63)),
        format!("{}-9.local.", "h".repeat(61)), "-2.local.".into(),
    ];
    let mut rename = |kind: &str, input: &str, out: String, want: String, f: &mut std::io::BufWriter<std::fs::File>| {
        let first = Name::from_escaped(&out).0.first().map(|l| l.len()).unwrap_or(0);
        // the rule does not say how an over-long label is shortened: only encodability is judged then
        let want_ok = Name::from_escaped(&want).0.first().map(|l| l.len()).unwrap_or(0) <= 63;
        let v = json!({"e": "rename", "id": n, "kind": kind, "in": input, "out": out, "want": want, "want_ok": want_ok, "first_len": first});
        writeln!(f, "{}", v).unwrap();
        n += 1;
    };
    for c in &inst_cases {
        let mut cur = c.clone();
        for _ in 0..3 {
            let out = fac::name_change(&cur);
            rename("inst", &cur, out.clone(), next_instance_name(&cur), &mut f);
            cur = out;
        }
    }
    for c in &host_cases {
        let mut cur = c.clone();
        for _ in 0..3 {
            let out = fac::hostname_change(&cur);
            rename("host", &cur, out.clone(), next_host_name(&cur), &mut f);
            cur = out;
        }
    }
    f.flush().unwrap();
    fac::World::leave();
    json!({"lines": n, "distinct_pairs": distinct.len()})
}
