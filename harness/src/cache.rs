//! Component-level driver for the record cache (`DnsCache` behind
//! `mdns_sd::verif::CacheFacade`): sequences of cache operations - packets
//! fed through the real decoder and `add_or_update`, evictions, verify
//! requests, the refresh look-ups, removal of a service type - at chosen
//! instants of the virtual clock.  After every operation the results and the
//! complete content of the cache are recorded; TraceCache.tla replays the
//! same operations through the operators of Cache.tla and compares.
//!
//! Two families: `cachecases` replays the operation sequences that TLC
//! enumerates from MCCacheCases.tla (specification -> implementation),
//! `cacherand` draws longer random sequences over a larger vocabulary
//! (several instances, hosts, spellings, interfaces, TTLs up to days).
use crate::rng::Rng;
use crate::wire::{self, Name, RData, RR};
use mdns_sd::verif::{CacheFacade, RecordView, World};
use serde_json::{json, Value};

pub const T0: u64 = 1_000_000;

fn lower(s: &str) -> String {
    s.to_lowercase()
}

fn hexs(b: &[u8]) -> String {
    wire::hex(b)
}

/// (type name, canonical rdata, target as spelled) of a record as the cache holds it
fn view_key(v: &RecordView) -> (String, String, String) {
    let ty = wire::type_name(v.ty);
    match v.ty {
        wire::T_PTR => (ty, v.target.clone().unwrap_or_default(), v.target.clone().unwrap_or_default()),
        wire::T_SRV => {
            let (p, w, port) = v.srv.unwrap_or((0, 0, 0));
            let h = v.target.clone().unwrap_or_default();
            (ty, format!("{} {} {} {}", p, w, port, h), h)
        }
        wire::T_A | wire::T_AAAA => {
            let b = v.bytes.clone().unwrap_or_default();
            let ip = if b.len() == 4 {
                std::net::Ipv4Addr::new(b[0], b[1], b[2], b[3]).to_string()
            } else {
                let mut o = [0u8; 16];
                o.copy_from_slice(&b[..16.min(b.len())]);
                std::net::Ipv6Addr::from(o).to_string()
            };
            (ty, ip, String::new())
        }
        wire::T_TXT => (ty, hexs(&v.bytes.clone().unwrap_or_default()), String::new()),
        // (NSEC and the rest: the facade shows no rdata; the vocabulary has one such record per name)
        _ => (ty, "-".to_string(), String::new()),
    }
}

/// the same for a record we send
fn rr_key(r: &RR) -> (String, String, String) {
    let ty = wire::type_name(r.ty);
    match &r.rdata {
        RData::Ptr(n) => (ty, n.unescaped(), n.unescaped()),
        RData::Srv { prio, weight, port, target } => (ty, format!("{} {} {} {}", prio, weight, port, target.unescaped()), target.unescaped()),
        RData::A(_) | RData::Aaaa(_) => (ty, r.ip_string().unwrap(), String::new()),
        RData::Txt(b) => (ty, hexs(b), String::new()),
        RData::Nsec { .. } | RData::Cname(_) | RData::Other(_) => (ty, "-".to_string(), String::new()),
    }
}

fn sub_of(owner: &str) -> String {
    // "_s._sub._t._tcp.local." -> "_s"
    match owner.find("._sub.") {
        Some(i) => owner[..i].to_string(),
        None => String::new(),
    }
}

fn rr_json(r: &RR) -> Value {
    let (ty, rk, tg) = rr_key(r);
    let n = r.name.unescaped();
    json!({"ty": ty, "n": n, "nl": lower(&n), "rk": rk, "tg": tg, "tgl": lower(&tg),
           "sub": if r.ty == wire::T_PTR { sub_of(&n) } else { String::new() }, "ttl": r.ttl, "fl": r.flush})
}

fn rel(t: u64) -> i64 {
    t as i64 - T0 as i64
}

fn dump_json(c: &CacheFacade) -> (Value, Value, usize) {
    let mut recs: Vec<Value> = c
        .dump()
        .into_iter()
        .map(|(m, key, v, src)| {
            let (ty, rk, tg) = view_key(&v);
            json!({"m": m, "key": key, "ty": ty, "n": v.name, "nl": lower(&v.name), "rk": rk, "fl": v.flush, "ifx": if m == "addr" { src } else { 0 },
                   "ttl": v.ttl, "cr": rel(v.created), "ex": rel(v.expires), "rf": rel(v.refresh), "tg": tg, "src": src})
        })
        .collect();
    recs.sort_by_key(|v| v.to_string());
    let keys: Vec<Value> = c.keys().into_iter().map(|(m, k)| json!([m, k])).collect();
    (json!(recs), json!(keys), c.key_counts().5)
}

pub enum Op {
    Recv { ifx: u32, fu: bool, recs: Vec<RR> },
    Evict,
    Verify { inst: String, dl: u64 },
    RefreshPtr { ty: String },
    RefreshSrvTxt { ty: String },
    RefreshHosts { ty: String },
    RefreshHostname { host: String },
    Forget { ty: String },
    DropIntf { ifx: u32 },
    DropAddrs { ifx: u32, v4: bool, v6: bool },
    Known { name: String, ty: u16 },
}

const IFN: [&str; 4] = ["", "lo", "eth0", "wlan0"];

/// Runs one sequence of (delay, operation) on a fresh cache; returns the trace lines.
pub fn run(scen: Value, ops: Vec<(u64, Op)>) -> Vec<Value> {
    let world = World::new(T0, 1);
    let h = world.add_host(Vec::new());
    world.enter(h);
    let mut c = CacheFacade::new("eth0", 2);
    let mut lines = vec![json!({"e": "reset", "scen": scen, "t": 0})];
    let mut now = T0;
    for (dt, op) in ops {
        now += dt;
        world.set_now(now);
        let mut line = json!({"e": "cop", "t": rel(now)});
        match op {
            Op::Recv { ifx, fu, recs } => {
                c.set_intf(IFN[(ifx as usize).min(3)], ifx);
                let pkt = wire::build(&wire::response(recs.clone()), false);
                let res = std::panic::catch_unwind(std::panic::AssertUnwindSafe(|| c.feed(pkt, fu)));
                let res_json: Value = match res {
                    Ok(Ok(v)) => json!(v
                        .into_iter()
                        .map(|(r, timers)| json!({"stored": r.is_some(), "new": r.unwrap_or(false), "nt": timers.len(),
                                                  "timers": timers.iter().map(|t| rel(*t)).collect::<Vec<_>>()}))
                        .collect::<Vec<_>>()),
                    Ok(Err(e)) => json!([{"error": format!("{:?}", e)}]),
                    Err(_) => json!([{"panic": true}]),
                };
                line["k"] = json!("recv");
                line["if"] = json!(ifx);
                line["fu"] = json!(fu);
                line["recs"] = json!(recs.iter().map(rr_json).collect::<Vec<_>>());
                line["res"] = res_json;
            }
            Op::Evict => {
                let (svc, addr) = c.evict(now);
                line["k"] = json!("evict");
                line["svc"] = json!(svc.into_iter().map(|(t, i)| json!([t, i])).collect::<Vec<_>>());
                line["addr"] = json!(addr);
            }
            Op::Verify { inst, dl } => {
                let q = c.verify(&inst, if dl == 0 { None } else { Some(now + dl) });
                line["k"] = json!("verify");
                line["inst"] = json!(inst);
                line["dl"] = json!(if dl == 0 { 0 } else { rel(now + dl) });
                line["nq"] = json!(q.len());
                line["q"] = json!(q.into_iter().map(|(n, t)| json!([n, wire::type_name(t)])).collect::<Vec<_>>());
            }
            Op::RefreshPtr { ty } => {
                let t = c.refresh_ptr(&ty);
                line["k"] = json!("rptr");
                line["ty"] = json!(ty);
                line["timers"] = json!(t.into_iter().map(rel).collect::<Vec<_>>());
                line["due"] = json!([]);
            }
            Op::RefreshSrvTxt { ty } => {
                let (due, t) = c.refresh_srv_txt(&ty);
                line["k"] = json!("rsrvtxt");
                line["ty"] = json!(ty);
                line["timers"] = json!(t.into_iter().map(rel).collect::<Vec<_>>());
                let mut d: Vec<Value> = Vec::new();
                for (i, tys) in due {
                    for t in tys {
                        d.push(json!([i, if t == wire::T_SRV { "srv" } else { "txt" }]));
                    }
                }
                line["due"] = json!(d);
            }
            Op::RefreshHosts { ty } => {
                let (due, t) = c.refresh_hosts(&ty);
                line["k"] = json!("rhosts");
                line["ty"] = json!(ty);
                line["timers"] = json!(t.into_iter().map(rel).collect::<Vec<_>>());
                line["due"] = json!(due);
            }
            Op::RefreshHostname { host } => {
                let due = c.refresh_hostname(&host);
                line["k"] = json!("rhostname");
                line["host"] = json!(host);
                line["timers"] = json!([]);
                line["due"] = json!(due.into_iter().map(|(_, ip)| ip).collect::<Vec<_>>());
            }
            Op::Forget { ty } => {
                c.remove_type(&ty);
                line["k"] = json!("forget");
                line["ty"] = json!(ty);
            }
            Op::DropIntf { ifx } => {
                let (removed, modified) = c.remove_intf(IFN[(ifx as usize).min(3)], ifx);
                line["k"] = json!("dropintf");
                line["idx"] = json!(ifx);
                line["removed"] = json!(removed.into_iter().map(|(t, i)| json!([t, i])).collect::<Vec<_>>());
                line["modified"] = json!(modified);
            }
            Op::DropAddrs { ifx, v4, v6 } => {
                c.remove_addrs(ifx, v4, v6);
                line["k"] = json!("dropaddrs");
                line["idx"] = json!(ifx);
                line["v4"] = json!(v4);
                line["v6"] = json!(v6);
            }
            Op::Known { name, ty } => {
                let ka = c.known_answers(&name, ty, now);
                let m = match ty {
                    wire::T_PTR => "ptr",
                    wire::T_SRV => "srv",
                    wire::T_TXT => "txt",
                    _ => "addr",
                };
                line["k"] = json!("known");
                line["m"] = json!(m);
                line["key"] = json!(if m == "addr" { lower(&name) } else { name.clone() });
                line["known"] = json!(ka.iter().map(|v| { let (t, rk, _) = view_key(v); json!([t, rk]) }).collect::<Vec<_>>());
            }
        }
        let (recs, keys, nsub) = dump_json(&c);
        line["dump"] = recs;
        line["keys"] = keys;
        line["nsub"] = json!(nsub);
        lines.push(line);
    }
    World::leave();
    lines
}

// ------------------------------------------------------------------ vocabulary
pub const TY: &str = "_t._tcp.local.";
pub const SUBTY: &str = "_s._sub._t._tcp.local.";

fn inst(i: u64) -> String {
    format!("i{}.{}", i, TY)
}
fn host(i: u64, variant: u64) -> String {
    match variant {
        0 => format!("h{}.local.", i),
        1 => format!("H{}.local.", i),
        _ => format!("h{}.LOCAL.", i),
    }
}

/// A record of the small vocabulary the model enumerates: kind as in MCCacheCases.tla
pub fn rec_of_kind(kind: &str, ttl: u32, fl: bool) -> RR {
    let n = |s: &str| Name::from_escaped(s);
    match kind {
        "P" => RR::new(n(TY), fl, ttl, RData::Ptr(n(&inst(1)))),
        "P2" => RR::new(n(TY), fl, ttl, RData::Ptr(n(&inst(2)))),
        "PS" => RR::new(n(SUBTY), fl, ttl, RData::Ptr(n(&inst(1)))),
        "S1" => RR::new(n(&inst(1)), fl, ttl, RData::Srv { prio: 0, weight: 0, port: 1, target: n(&host(1, 0)) }),
        "S2" => RR::new(n(&inst(1)), fl, ttl, RData::Srv { prio: 0, weight: 0, port: 2, target: n(&host(1, 0)) }),
        "T" => RR::new(n(&inst(1)), fl, ttl, RData::Txt(vec![1, b'a'])),
        "A1" => RR::new(n(&host(1, 0)), fl, ttl, RData::A([10, 0, 0, 1])),
        "A2" => RR::new(n(&host(1, 0)), fl, ttl, RData::A([10, 0, 0, 2])),
        "Q1" => RR::new(n(&host(1, 0)), fl, ttl, RData::Aaaa([0xfe, 0x80, 0, 0, 0, 0, 0, 0, 0, 0, 0, 0, 0, 0, 0, 1])),
        "N" => RR::new(n(&inst(1)), fl, ttl, RData::Nsec { next: n(&inst(1)), rest: vec![0, 1, 0x40] }),
        _ => RR::new(n(&host(9, 0)), fl, ttl, RData::Other(vec![0])),
    }
}

/// One case printed by MCCacheCases: {"ops": [{"k": .., "dt": .., ...}]}
pub fn scenario_case(id: u64, case: &Value) -> Vec<Value> {
    let mut ops = Vec::new();
    for o in case["ops"].as_array().cloned().unwrap_or_default() {
        let dt = o["dt"].as_u64().unwrap_or(0);
        let k = o["k"].as_str().unwrap_or("");
        let op = match k {
            "recv" => Op::Recv {
                ifx: o["if"].as_u64().unwrap_or(2) as u32,
                fu: o["fu"].as_bool().unwrap_or(true),
                recs: o["recs"]
                    .as_array()
                    .cloned()
                    .unwrap_or_default()
                    .iter()
                    .map(|r| rec_of_kind(r["kind"].as_str().unwrap_or(""), r["ttl"].as_u64().unwrap_or(0) as u32, r["fl"].as_bool().unwrap_or(false)))
                    .collect(),
            },
            "evict" => Op::Evict,
            "verify" => Op::Verify { inst: inst(1), dl: o["dl"].as_u64().unwrap_or(0) },
            "rptr" => Op::RefreshPtr { ty: TY.into() },
            "rsrvtxt" => Op::RefreshSrvTxt { ty: TY.into() },
            "rhosts" => Op::RefreshHosts { ty: TY.into() },
            "rhostname" => Op::RefreshHostname { host: host(1, 0) },
            "forget" => Op::Forget { ty: if o["sub"].as_bool().unwrap_or(false) { SUBTY.into() } else { TY.into() } },
            "dropintf" => Op::DropIntf { ifx: 2 },
            "dropaddrs" => Op::DropAddrs { ifx: 2, v4: true, v6: false },
            "knownptr" => Op::Known { name: TY.into(), ty: wire::T_PTR },
            "knownaddr" => Op::Known { name: host(1, 0), ty: wire::T_A },
            _ => continue,
        };
        ops.push((dt, op));
    }
    run(json!({"id": id, "family": "cachecases"}), ops)
}

/// Random sequences over a larger vocabulary.
pub fn scenario_rand(id: u64, seed: u64, thorough: bool) -> Vec<Value> {
    let mut r = Rng::new(seed ^ id.wrapping_mul(0x9E37_79B9));
    let n = |s: &str| Name::from_escaped(s);
    let nops = if thorough { r.range(20, 120) } else { r.range(10, 50) };
    // a scenario uses one palette of TTLs: short ones make records run out within the scenario
    let ttls: Vec<u32> = match r.below(4) {
        0 => vec![0, 1, 2, 3, 5],
        1 => vec![1, 2, 10, 120],
        2 => vec![0, 1, 4, 4500, 86400],
        _ => vec![0, 1, 2, 5, 10, 120, 4500, 1_000_000],
    };
    let spell = r.chance(1, 3); // host names in several letter cases
    let flushy = r.chance(1, 2); // unique records sometimes come without the flush bit and shared ones with it
    let mut ops = Vec::new();
    for _ in 0..nops {
        let dt = match r.below(8) {
            0 => 0,
            1 => r.range(1, 300),
            2 => r.range(700, 1300),
            3 => 1000,
            4 => r.range(1500, 4000),
            // exactly at a boundary of a record received in the previous operation: half-life, the refresh marks, the end
            5 => (*r.pick(&[500u64, 800, 850, 900, 950, 1000]) * *r.pick(&ttls) as u64).min(130_000),
            6 => r.range(1, 12) * 250,
            _ => r.range(0, 2000),
        };
        let op = match r.below(16) {
            0..=7 => {
                let k = r.range(1, 4);
                let mut recs = Vec::new();
                for _ in 0..k {
                    let ttl = *r.pick(&ttls);
                    let i = r.range(1, 3);
                    let hv = if spell { r.below(3) } else { 0 };
                    let h = r.range(1, 2);
                    let uni = if flushy { r.chance(4, 5) } else { true };
                    let sh = if flushy { r.chance(1, 5) } else { false };
                    recs.push(match r.below(9) {
                        0 | 1 => RR::new(n(TY), sh, ttl, RData::Ptr(n(&inst(i)))),
                        2 => RR::new(n(SUBTY), sh, ttl, RData::Ptr(n(&inst(i)))),
                        3 | 4 => RR::new(n(&inst(i)), uni, ttl, RData::Srv { prio: 0, weight: 0, port: r.range(1, 2) as u16, target: n(&host(h, hv)) }),
                        5 => RR::new(n(&inst(i)), uni, ttl, RData::Txt(vec![1, b'a' + r.below(2) as u8])),
                        6 | 7 => RR::new(n(&host(h, hv)), uni, ttl, RData::A([10, 0, 0, r.range(1, 3) as u8])),
                        _ => {
                            if r.chance(1, 2) {
                                RR::new(n(&host(h, hv)), uni, ttl, RData::Aaaa([0xfe, 0x80, 0, 0, 0, 0, 0, 0, 0, 0, 0, 0, 0, 0, 0, r.range(1, 2) as u8]))
                            } else {
                                RR::new(n(&inst(i)), uni, ttl, RData::Nsec { next: n(&inst(i)), rest: vec![0, 1, 0x40] })
                            }
                        }
                    });
                }
                Op::Recv { ifx: if r.chance(1, 4) { 3 } else { 2 }, fu: r.chance(3, 4), recs }
            }
            8 | 9 | 10 => Op::Evict,
            11 => Op::Verify { inst: inst(r.range(1, 3)), dl: *r.pick(&[0u64, 500, 1000, 3000]) },
            12 => Op::RefreshPtr { ty: if r.chance(1, 4) { SUBTY.into() } else { TY.into() } },
            13 => Op::RefreshSrvTxt { ty: TY.into() },
            14 => {
                // (with several spellings of a host name the answer of refresh_due_hosts depends on the order in which a
                // hash set hands out the spellings: not driven then)
                if !spell && r.chance(1, 2) {
                    Op::RefreshHosts { ty: TY.into() }
                } else {
                    Op::RefreshHostname { host: host(r.range(1, 2), 0) }
                }
            }
            _ => match r.below(8) {
                0 | 1 => Op::Forget { ty: if r.chance(1, 3) { SUBTY.into() } else { TY.into() } },
                2 => Op::DropIntf { ifx: if r.chance(1, 2) { 3 } else { 2 } },
                3 => Op::DropAddrs { ifx: if r.chance(1, 2) { 3 } else { 2 }, v4: r.chance(2, 3), v6: r.chance(1, 2) },
                4 => Op::Known { name: if r.chance(1, 4) { SUBTY.into() } else { TY.into() }, ty: wire::T_PTR },
                5 => Op::Known { name: host(r.range(1, 2), 0), ty: if r.chance(1, 2) { wire::T_A } else { wire::T_AAAA } },
                6 => Op::Known { name: inst(r.range(1, 3)), ty: if r.chance(1, 2) { wire::T_SRV } else { wire::T_TXT } },
                _ => Op::Evict,
            },
        };
        ops.push((dt, op));
    }
    run(json!({"id": id, "family": "cacherand", "spell": spell, "flushy": flushy}), ops)
}
