//! C16 driver (component level): property lists through every supported input
//! type of `ServiceInfo::new`, the generated TXT RDATA, what a browser decodes
//! (`TxtProperties::from(&[u8])`), case-variant lookups; and arbitrary bytes
//! into the TXT decoder.

use crate::rng::Rng;
use mdns_sd::verif as fac;
use mdns_sd::{ServiceInfo, TxtProperties, TxtProperty};
use serde_json::{json, Value};
use std::collections::HashMap;
use std::io::Write;

#[derive(Clone, Debug, PartialEq, Eq)]
pub struct Prop {
    pub k: Vec<u8>,
    pub v: Option<Vec<u8>>,
}

fn prop_json(p: &Prop) -> Value {
    json!({"k": p.k, "hv": p.v.is_some(), "v": p.v.clone().unwrap_or_default()})
}

fn view(tp: &TxtProperty) -> Value {
    json!({"k": tp.key().as_bytes(), "hv": tp.val().is_some(), "v": tp.val().map(|v| v.to_vec()).unwrap_or_default()})
}

fn props_of(t: &TxtProperties) -> Vec<Value> {
    t.iter().map(view).collect()
}

fn utf8(b: &[u8]) -> Option<String> {
    String::from_utf8(b.to_vec()).ok()
}

/// Which input types can carry this list at all.
fn vias(ps: &[Prop]) -> Vec<&'static str> {
    let mut v = vec![];
    if ps.iter().any(|p| utf8(&p.k).is_none()) {
        return v;
    }
    v.push("vec");
    let all_str_vals = ps.iter().all(|p| p.v.as_ref().map_or(false, |x| utf8(x).is_some()));
    if all_str_vals {
        v.push("slice");
        let mut lk: Vec<String> = ps.iter().map(|p| utf8(&p.k).unwrap().to_lowercase()).collect();
        lk.sort();
        lk.dedup();
        if lk.len() == ps.len() {
            v.push("hashmap");
        }
    }
    v
}

fn make_info(via: &str, ps: &[Prop]) -> mdns_sd::Result<ServiceInfo> {
    let ty = "_t._tcp.local.";
    match via {
        "slice" => {
            let pairs: Vec<(String, String)> = ps.iter().map(|p| (utf8(&p.k).unwrap(), utf8(p.v.as_ref().unwrap()).unwrap())).collect();
            ServiceInfo::new(ty, "i", "h.local.", "10.0.0.1", 80, &pairs[..])
        }
        "hashmap" => {
            let m: HashMap<String, String> = ps.iter().map(|p| (utf8(&p.k).unwrap(), utf8(p.v.as_ref().unwrap()).unwrap())).collect();
            if ps.len() % 2 == 0 {
                ServiceInfo::new(ty, "i", "h.local.", "10.0.0.1", 80, Some(m))
            } else {
                ServiceInfo::new(ty, "i", "h.local.", "10.0.0.1", 80, m)
            }
        }
        _ => {
            let v: Vec<TxtProperty> = ps
                .iter()
                .map(|p| match &p.v {
                    Some(val) => TxtProperty::from((utf8(&p.k).unwrap(), val.clone())),
                    None => TxtProperty::from(utf8(&p.k).unwrap().as_str()),
                })
                .collect();
            ServiceInfo::new(ty, "i", "h.local.", "10.0.0.1", 80, v)
        }
    }
}

fn swap_case(b: &[u8]) -> Vec<u8> {
    b.iter()
        .map(|c| if c.is_ascii_lowercase() { c.to_ascii_uppercase() } else { c.to_ascii_lowercase() })
        .collect()
}

pub fn run_list(id: usize, kind: &str, via: &str, ps: &[Prop]) -> Value {
    let ps2 = ps.to_vec();
    let via2 = via.to_string();
    let r = std::panic::catch_unwind(move || {
        match make_info(&via2, &ps2) {
            Err(_) => (false, vec![], vec![], vec![]),
            Ok(info) => {
                let wire = fac::generate_txt(&info);
                let browser = TxtProperties::from(&wire[..]);
                let dec = props_of(&browser);
                let mut gets = vec![];
                let mut queries: Vec<Vec<u8>> = ps2.iter().flat_map(|p| vec![p.k.clone(), swap_case(&p.k)]).collect();
                queries.push(b"nosuchkey".to_vec());
                for q in queries {
                    if let Some(qs) = utf8(&q) {
                        match browser.get(&qs) {
                            Some(tp) => {
                                let mut g = view(tp);
                                g["q"] = json!(q);
                                g["found"] = json!(true);
                                gets.push(g);
                            }
                            None => gets.push(json!({"q": q, "found": false, "k": [], "hv": false, "v": []})),
                        }
                    }
                }
                (true, wire, dec, gets)
            }
        }
    });
    match r {
        Ok((acc, wire, dec, get)) => json!({"e": "txt", "id": id, "kind": kind, "via": via, "out": "ok",
            "ps": ps.iter().map(prop_json).collect::<Vec<_>>(), "acc": acc, "wire": wire, "dec": dec, "get": get}),
        Err(_) => json!({"e": "txt", "id": id, "kind": kind, "via": via, "out": "panic",
            "ps": ps.iter().map(prop_json).collect::<Vec<_>>(), "acc": true, "wire": [], "dec": [], "get": []}),
    }
}

pub fn run_bytes(id: usize, kind: &str, b: &[u8]) -> Value {
    let b2 = b.to_vec();
    let r = std::panic::catch_unwind(move || {
        let dec: Vec<Value> = fac::decode_txt(&b2)
            .into_iter()
            .map(|(k, v)| json!({"k": k.as_bytes(), "hv": v.is_some(), "v": v.unwrap_or_default()}))
            .collect();
        let uniq = props_of(&TxtProperties::from(&b2[..]));
        (dec, uniq)
    });
    match r {
        Ok((dec, uniq)) => json!({"e": "txtdec", "id": id, "kind": kind, "b": b, "out": "ok", "dec": dec, "uniq": uniq}),
        Err(_) => json!({"e": "txtdec", "id": id, "kind": kind, "b": b, "out": "panic", "dec": [], "uniq": []}),
    }
}

pub fn lists_from_tlc(path: &str) -> Vec<Vec<Prop>> {
    let txt = std::fs::read_to_string(path).unwrap_or_default();
    let b = |v: &Value| -> Vec<u8> { v.as_array().map(|a| a.iter().map(|x| x.as_u64().unwrap_or(0) as u8).collect()).unwrap_or_default() };
    txt.lines()
        .filter(|l| !l.trim().is_empty())
        .map(|l| {
            let v: Value = serde_json::from_str(l).expect("case");
            v["ps"].as_array().cloned().unwrap_or_default().iter()
                .map(|p| Prop { k: b(&p["k"]), v: if p["hv"].as_bool().unwrap_or(false) { Some(b(&p["v"])) } else { None } })
                .collect()
        })
        .collect()
}

/// TLC's cases use a scaled Limit; map its fillers (runs of 'x') onto the real
/// 255-byte boundary: a value of n >= limit-3 'x' bytes becomes 255 - (limit - n) - overhead.
pub fn rescale(ps: &[Prop], limit: usize) -> Vec<Prop> {
    ps.iter()
        .map(|p| match &p.v {
            Some(v) if v.len() >= limit.saturating_sub(3) && v.len() >= 2 && v.iter().all(|c| *c == b'x') => {
                // keep the distance of key=value length to the limit
                let total = p.k.len() + 1 + v.len();
                let want_total = (255 + total).saturating_sub(limit);
                Prop { k: p.k.clone(), v: Some(vec![b'x'; want_total.saturating_sub(p.k.len() + 1)]) }
            }
            _ => p.clone(),
        })
        .collect()
}

fn rand_key(r: &mut Rng) -> Vec<u8> {
    let pool: [&[u8]; 12] = [b"", b"a", b"A", b"key", b"KEY", b"Key", b"path", b"a=b", "k\u{e9}".as_bytes(), b"k y", b"~", b"x.y"];
    match r.below(10) {
        0 => vec![b'k'; r.range(250, 256) as usize],
        1 => vec![b'K'; r.range(1, 254) as usize],
        _ => r.pick(&pool).to_vec(),
    }
}

fn rand_val(r: &mut Rng, keylen: usize) -> Option<Vec<u8>> {
    match r.below(10) {
        0 => None,
        1 => Some(vec![]),
        2 => Some(b"=".to_vec()),
        3 => Some(vec![0]),
        4 | 5 => {
            // around the 255 boundary
            let want = (255i64 - keylen as i64 - 1 + r.range(0, 4) as i64 - 2).max(0) as usize;
            if r.chance(1, 2) { Some(vec![b'v'; want]) } else { Some(r.bytes(want)) }
        }
        6 => { let n = r.below(40) as usize; Some(r.bytes(n)) }
        _ => Some(r.pick(&[&b"1"[..], b"value", b"a=b=c", "\u{4e2d}".as_bytes()]).to_vec()),
    }
}

pub fn drive(tlc_cases: Option<&str>, limit: usize, seed: u64, n_lists: usize, n_bytes: usize, enum_len: usize, out_path: &str) -> Value {
    std::panic::set_hook(Box::new(|_| {}));
    let mut f = std::io::BufWriter::new(std::fs::File::create(out_path).expect("create trace"));
    let mut id = 0usize;
    let mut counts: std::collections::BTreeMap<String, u64> = Default::default();
    let mut distinct = std::collections::HashSet::new();
    let mut emit = |v: Value, f: &mut std::io::BufWriter<std::fs::File>| {
        let key = format!("{}:{}:{}", v["e"].as_str().unwrap(), v["kind"].as_str().unwrap(),
            if v["e"] == "txt" { if v["acc"].as_bool().unwrap() { "accepted" } else { "refused" } } else { v["out"].as_str().unwrap() });
        *counts.entry(key).or_default() += 1;
        let nontrivial = if v["e"] == "txt" { v["acc"].as_bool().unwrap() && v["ps"].as_array().unwrap().len() > 0 }
                         else { v["dec"].as_array().unwrap().len() > 0 };
        if nontrivial {
            distinct.insert(format!("{}{}{}", v["via"], v["ps"], v["b"]));
        }
        writeln!(f, "{}", v).unwrap();
    };
    if let Some(p) = tlc_cases {
        for ps in lists_from_tlc(p) {
            let ps = rescale(&ps, limit);
            for via in vias(&ps) {
                emit(run_list(id, "tlc", via, &ps), &mut f);
                id += 1;
            }
        }
    }
    let mut r = Rng::new(seed ^ 0xC16);
    for _ in 0..n_lists {
        let n = match r.below(6) { 0 => 0, 1 => 1, 2 => 2, 3 => 3, 4 => r.range(4, 12), _ => r.range(1, 5) } as usize;
        let ps: Vec<Prop> = (0..n).map(|_| { let k = rand_key(&mut r); let v = rand_val(&mut r, k.len()); Prop { k, v } }).collect();
        for via in vias(&ps) {
            emit(run_list(id, "random", via, &ps), &mut f);
            id += 1;
        }
    }
    // every byte string over a small alphabet, then random / mutated-valid TXT data
    let alphabet = [0u8, 1, 2, 3, b'=', b'a', 0xFF];
    let mut frontier: Vec<Vec<u8>> = vec![vec![]];
    emit(run_bytes(id, "enum", &[]), &mut f);
    id += 1;
    for _ in 0..enum_len {
        let mut next = Vec::new();
        for s in &frontier {
            for a in alphabet {
                let mut t = s.clone();
                t.push(a);
                emit(run_bytes(id, "enum", &t), &mut f);
                id += 1;
                next.push(t);
            }
        }
        frontier = next;
    }
    for i in 0..n_bytes {
        let b = if i % 2 == 0 {
            let n = r.below(300) as usize;
            r.bytes(n)
        } else {
            // valid-looking TXT with a corrupted length byte / truncated tail
            let mut b = Vec::new();
            for _ in 0..r.range(1, 5) {
                let k = rand_key(&mut r);
                let v = rand_val(&mut r, k.len());
                let mut s = k.clone();
                if let Some(v) = v { s.push(b'='); s.extend(v); }
                s.truncate(255);
                b.push(s.len() as u8);
                b.extend(s);
            }
            match r.below(4) {
                0 => { let n = b.len(); if n > 0 { let i = r.below(n as u64) as usize; b[i] = r.next() as u8; } }
                1 => { let n = b.len(); b.truncate(r.below(n as u64 + 1) as usize); }
                _ => {}
            }
            b
        };
        emit(run_bytes(id, "random", &b), &mut f);
        id += 1;
    }
    f.flush().unwrap();
    json!({"lines": id, "counts": counts, "distinct_nontrivial": distinct.len()})
}
