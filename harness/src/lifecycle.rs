//! Driver families of C14 (shutdown is clean, final and safe under concurrent use).
//!
//! `lifecases`: the schedules enumerated by TLC from MCLifeCases.tla (every
//! sequence of up to N commands of every kind with an Exit in it, cut into
//! loop iterations in every way) replayed on a real daemon through the gate of
//! the simulation layer: the commands of a batch are queued while the daemon is
//! parked, then exactly one iteration runs. By seed: a warm-up that leaves an
//! announced service and open searches behind, pauses of virtual time between
//! batches, the daemon held in its exit window (after the queue was drained,
//! before the receiver is dropped) with calls made there, calls after the end.
//!
//! `threads`: real client threads against a free-running daemon.

use crate::rng::Rng;
use crate::sim::*;
use mdns_sd::ServiceInfo;
use serde_json::{json, Value};

thread_local! {
    /// the scenario under way runs on a dual-stack interface (the services then have an address of either version, so
    /// that what is announced and withdrawn goes out once per IP version)
    static DUAL: std::cell::Cell<bool> = std::cell::Cell::new(false);
}
fn dual() -> bool {
    DUAL.with(|c| c.get())
}
const V6ADDR: &str = "fd00::1:10";

fn topo() -> Vec<IfSpec> {
    DUAL.with(|c| c.set(false));
    vec![IfSpec { name: "eth0".into(), index: 2, addrs: vec![(v4(192, 168, 1, 10), 24)], up: true }]
}
fn topo_for(id: u64) -> Vec<IfSpec> {
    let mut t = topo();
    if id % 2 == 1 {
        DUAL.with(|c| c.set(true));
        t[0].addrs.push((V6ADDR.parse().unwrap(), 64));
    }
    t
}
fn addrs() -> String {
    if dual() { format!("192.168.1.10,{}", V6ADDR) } else { "192.168.1.10".to_string() }
}

fn svc(k: usize) -> ServiceInfo {
    ServiceInfo::new("_life._tcp.local.", &format!("svc{}", k), &format!("lifehost{}.local.", k), addrs().as_str(), 7000 + k as u16, &[("k", "v")][..]).expect("ServiceInfo::new")
}

/// One call of the abstract kind `kind`; `k` makes names distinct.
fn call(sim: &mut Sim, d: usize, kind: &str, k: usize, r: &mut Rng) {
    match kind {
        "reply" => {
            if r.chance(1, 2) {
                sim.get_metrics(d);
            } else {
                // a name that is not registered: the reply is NotFound, nothing changes
                sim.unregister(d, &format!("nobody{}._life._tcp.local.", k));
            }
        }
        "status" => {
            sim.status(d);
        }
        "sub" => {
            if r.chance(1, 2) {
                sim.browse(d, &format!("_t{}._tcp.local.", k), false);
            } else {
                sim.resolve_hostname(d, &format!("somehost{}.local.", k), None);
            }
        }
        "mon" => {
            sim.monitor(d);
        }
        "reg" => {
            sim.register(d, svc(k));
        }
        "exit" => {
            sim.shutdown(d);
        }
        _ => match r.below(4) {
            // commands without a channel that change nothing this family looks at
            0 => sim.stop_browse(d, "_never._tcp.local."),
            1 => sim.verify(d, "nothing._never._tcp.local.", 1000),
            2 => sim.set_ip_check_interval(d, 5),
            _ => sim.accept_unsolicited(d, false),
        },
    }
}

fn pause(sim: &mut Sim, ms: u64) {
    let t = sim.t();
    sim.run_until(t + ms);
}

pub fn scenario_case(id: u64, seed: u64, case: &Value) -> Vec<Value> {
    let mut r = Rng::new(seed.wrapping_mul(49979687).wrapping_add(id));
    let flat: Vec<String> = case["flat"].as_array().unwrap().iter().map(|x| x.as_str().unwrap().to_string()).collect();
    let cuts: Vec<usize> = case["cuts"].as_array().unwrap().iter().map(|x| x.as_u64().unwrap() as usize).collect();
    let warm = r.chance(1, 2);
    let hold = r.chance(1, 3);
    let mut sim = Sim::new(json!({"id": id, "family": "lifecases", "warm": warm, "hold": hold, "dual": id % 2 == 1}), seed ^ id, vec![topo_for(id)], vec![vec![(0, 2)]]);
    let d = sim.spawn(0);
    let mut k = 100;
    if warm {
        // leave an announced service, an open browse and an open resolver behind
        call(&mut sim, d, "reg", k, &mut r);
        call(&mut sim, d, "sub", k + 1, &mut r);
        call(&mut sim, d, "sub", k + 2, &mut r);
        if r.chance(1, 2) {
            call(&mut sim, d, "mon", k + 3, &mut r);
        }
        sim.kick(d);
        pause(&mut sim, 2600);
        if id % 3 == 0 {
            // the announced service is registered again with changed data: while that is being probed (the schedule
            // below falls into those 750 ms) a shutdown still owes the goodbye for what was announced
            let again = ServiceInfo::new("_life._tcp.local.", &format!("svc{}", k), &format!("lifehost{}.local.", k), addrs().as_str(), 7000 + k as u16, &[("k", "changed")][..]).expect("ServiceInfo::new");
            sim.register(d, again);
            sim.kick(d);
            pause(&mut sim, 150 + (id % 4) * 130);
        }
        k += 10;
    }
    if hold {
        sim.hold_exit(d, true);
    }
    for (i, kind) in flat.iter().enumerate() {
        call(&mut sim, d, kind, i + 1, &mut r);
        if cuts.contains(&(i + 1)) || i + 1 == flat.len() {
            sim.step(d);
            in_window(&mut sim, d, &mut r, &mut k);
            if sim.daemons[d].alive && r.chance(1, 3) {
                pause(&mut sim, *r.pick(&[100u64, 800, 2600]));
                in_window(&mut sim, d, &mut r, &mut k);
            }
        }
    }
    // whatever is left runs (nothing should be)
    if sim.daemons[d].alive {
        sim.settle(20);
        in_window(&mut sim, d, &mut r, &mut k);
    }
    sim.hold_exit(d, false);
    // calls after the end
    for _ in 0..r.range(1, 3) {
        let kind = *r.pick(&["status", "reply", "sub", "reg", "fire", "exit", "mon"]);
        k += 1;
        call(&mut sim, d, kind, k, &mut r);
    }
    let fin = sim.final_state(d);
    let alive = sim.daemons[d].alive;
    sim.log(json!({"e": "final", "d": d, "alive": alive, "pending": fin["pending"], "late": fin["late_events"], "closed": sim.closed_chans(d)}));
    sim.finish()
}

/// If the last step left the daemon in its exit window: make some calls there, then let it go.
fn in_window(sim: &mut Sim, d: usize, r: &mut Rng, k: &mut usize) {
    let last_win = sim.out.last().map_or(false, |l| l["e"] == "iter" && l["win"] == true);
    if !last_win {
        return;
    }
    for _ in 0..r.below(3) {
        let kind = *r.pick(&["status", "reply", "sub", "reg", "fire", "exit", "mon"]);
        *k += 1;
        call(sim, d, kind, *k, r);
    }
    sim.release_exit(d);
}

/// A queue-full schedule: more than 100 commands before one iteration.
pub fn scenario_full(id: u64, seed: u64) -> Vec<Value> {
    let mut r = Rng::new(seed.wrapping_mul(86028121).wrapping_add(id));
    let mut sim = Sim::new(json!({"id": id, "family": "lifecases", "full": true}), seed ^ id, vec![topo()], vec![vec![(0, 2)]]);
    let d = sim.spawn(0);
    let n = 98 + r.below(6) as usize;
    let exit_at = r.below(n as u64 + 3) as usize;
    for i in 0..n + 3 {
        let kind = if i == exit_at { "exit" } else { *r.pick(&["fire", "status", "reply", "fire"]) };
        call(&mut sim, d, kind, i + 1, &mut r);
    }
    sim.step(d);
    sim.settle(10);
    call(&mut sim, d, "status", 999, &mut r);
    let fin = sim.final_state(d);
    let alive = sim.daemons[d].alive;
    sim.log(json!({"e": "final", "d": d, "alive": alive, "pending": fin["pending"], "late": fin["late_events"], "closed": sim.closed_chans(d)}));
    sim.finish()
}

// ---------------------------------------------------------------------------
// family `threads`: real client threads against a free-running daemon
// ---------------------------------------------------------------------------

use std::sync::atomic::{AtomicU64, Ordering};
use std::sync::Arc;
use std::time::{Duration, Instant};

enum Held {
    Browse(mdns_sd::Receiver<mdns_sd::ServiceEvent>),
    Host(mdns_sd::Receiver<mdns_sd::HostnameResolutionEvent>),
    Mon(mdns_sd::Receiver<mdns_sd::DaemonEvent>),
}

fn res_name<T>(r: &std::thread::Result<mdns_sd::Result<T>>) -> &'static str {
    match r {
        Err(_) => "panic",
        Ok(Ok(_)) => "ok",
        Ok(Err(mdns_sd::Error::Again)) => "Again",
        Ok(Err(mdns_sd::Error::DaemonShutdown)) => "DaemonShutdown",
        Ok(Err(_)) => "Err",
    }
}

fn wait_status(rx: &mdns_sd::Receiver<mdns_sd::DaemonStatus>) -> &'static str {
    match rx.recv_timeout(Duration::from_millis(6000)) {
        Ok(mdns_sd::DaemonStatus::Running) => "Running",
        Ok(mdns_sd::DaemonStatus::Shutdown) => "Shutdown",
        Ok(_) => "value",
        Err(flume::RecvTimeoutError::Disconnected) => "closed",
        Err(flume::RecvTimeoutError::Timeout) => "timeout",
    }
}

fn wait_any<T>(rx: &mdns_sd::Receiver<T>) -> &'static str {
    match rx.recv_timeout(Duration::from_millis(6000)) {
        Ok(_) => "value",
        Err(flume::RecvTimeoutError::Disconnected) => "closed",
        Err(flume::RecvTimeoutError::Timeout) => "timeout",
    }
}

/// Reads a channel until it is disconnected (or the deadline passes); returns the
/// SearchStarted / SearchStopped kinds seen and whether it closed.
fn drain_held(h: &Held, deadline: Instant) -> (Vec<&'static str>, bool) {
    let mut kinds = Vec::new();
    loop {
        let left = deadline.saturating_duration_since(Instant::now());
        if left.is_zero() {
            return (kinds, false);
        }
        let step = left.min(Duration::from_millis(50));
        let r: Result<Option<&'static str>, bool> = match h {
            Held::Browse(rx) => match rx.recv_timeout(step) {
                Ok(mdns_sd::ServiceEvent::SearchStarted(_)) => Ok(Some("SearchStarted")),
                Ok(mdns_sd::ServiceEvent::SearchStopped(_)) => Ok(Some("SearchStopped")),
                Ok(_) => Ok(None),
                Err(flume::RecvTimeoutError::Disconnected) => Err(true),
                Err(flume::RecvTimeoutError::Timeout) => Err(false),
            },
            Held::Host(rx) => match rx.recv_timeout(step) {
                Ok(mdns_sd::HostnameResolutionEvent::SearchStarted(_)) => Ok(Some("SearchStarted")),
                Ok(mdns_sd::HostnameResolutionEvent::SearchStopped(_)) => Ok(Some("SearchStopped")),
                Ok(_) => Ok(None),
                Err(flume::RecvTimeoutError::Disconnected) => Err(true),
                Err(flume::RecvTimeoutError::Timeout) => Err(false),
            },
            Held::Mon(rx) => match rx.recv_timeout(step) {
                Ok(_) => Ok(None),
                Err(flume::RecvTimeoutError::Disconnected) => Err(true),
                Err(flume::RecvTimeoutError::Timeout) => Err(false),
            },
        };
        match r {
            Ok(Some(k)) => kinds.push(k),
            Ok(None) => {}
            Err(true) => return (kinds, true),
            Err(false) => {}
        }
    }
}

pub fn scenario_threads(id: u64, seed: u64) -> Vec<Value> {
    let mut r = Rng::new(seed.wrapping_mul(67867967).wrapping_add(id));
    let nthr = r.range(2, 6) as usize;
    let mut sim = Sim::new(json!({"id": id, "family": "threads", "threads": nthr}), seed ^ id, vec![topo()], vec![vec![(0, 2)]]);
    let d = sim.spawn(0);
    let dd = sim.daemons[d].d;
    let world = sim.world.clone();
    let sd = sim.daemons[d].sd.clone();
    let t_start = Instant::now();
    let seq = Arc::new(AtomicU64::new(1));
    world.set_free_run(dd, true);
    // warm-up on the main thread: an announced service and two open searches
    let warm_browse = sd.browse("_warm._tcp.local.").ok();
    let warm_host = sd.resolve_hostname("warmhost.local.", None).ok();
    let _ = sd.register(svc(900));
    let warm_fnk = "svc900._life._tcp.local.".to_string();
    // virtual time runs 20x faster than real time
    let stop_clock = Arc::new(std::sync::atomic::AtomicBool::new(false));
    let clock = {
        let w = world.clone();
        let stop = stop_clock.clone();
        std::thread::spawn(move || {
            while !stop.load(Ordering::Relaxed) {
                std::thread::sleep(Duration::from_millis(1));
                let n = w.now();
                w.set_now(n + 20);
            }
        })
    };
    std::thread::sleep(Duration::from_millis(if r.chance(1, 4) { 5 } else { 160 }));
    let (tx, rx) = std::sync::mpsc::channel::<(usize, Vec<Value>)>();
    let shutter = r.below(nthr as u64) as usize;
    let mut handles = Vec::new();
    for th in 0..nthr {
        let sd = sd.clone();
        let tx = tx.clone();
        let seq = seq.clone();
        let mut tr = r.fork(1000 + th as u64);
        let nops = tr.range(6, 28) as usize;
        let shut_at = if th == shutter { Some(tr.below(nops as u64) as usize) } else if tr.chance(1, 5) { Some(tr.below(nops as u64) as usize) } else { None };
        let spin = tr.chance(1, 2);
        handles.push(std::thread::spawn(move || {
            let mut log: Vec<Value> = Vec::new();
            let mut held: Vec<(String, Held, u64)> = Vec::new();
            for op in 0..nops {
                let kind: &str = if Some(op) == shut_at { "exit" } else { *tr.pick(&["status", "status", "reply", "sub", "mon", "reg", "fire", "fire"]) };
                let k = th * 1000 + op;
                let s0 = seq.fetch_add(1, Ordering::SeqCst);
                let t0 = t_start.elapsed().as_micros() as u64;
                let (fname, res, reply): (&str, &str, &str);
                let mut s2 = 0u64;
                let tc = std::cell::Cell::new(0u64);
                let mark = || tc.set(t_start.elapsed().as_micros() as u64);
                match kind {
                    "status" => {
                        let rr = std::panic::catch_unwind(std::panic::AssertUnwindSafe(|| sd.status()));
                        mark();
                        fname = "status";
                        res = res_name(&rr);
                        reply = if let Ok(Ok(rx)) = &rr { wait_status(rx) } else { "none" };
                    }
                    "exit" => {
                        // retried while the queue is full
                        let mut rr = std::panic::catch_unwind(std::panic::AssertUnwindSafe(|| sd.shutdown()));
                        let mut tries = 0;
                        while matches!(rr, Ok(Err(mdns_sd::Error::Again))) && tries < 2000 {
                            std::thread::sleep(Duration::from_micros(200));
                            rr = std::panic::catch_unwind(std::panic::AssertUnwindSafe(|| sd.shutdown()));
                            tries += 1;
                        }
                        mark();
                        fname = "shutdown";
                        res = res_name(&rr);
                        reply = if let Ok(Ok(rx)) = &rr { wait_status(rx) } else { "none" };
                    }
                    "reply" => {
                        if tr.chance(1, 2) {
                            let rr = std::panic::catch_unwind(std::panic::AssertUnwindSafe(|| sd.get_metrics()));
                            mark();
                            fname = "get_metrics";
                            res = res_name(&rr);
                            reply = if let Ok(Ok(rx)) = &rr { wait_any(rx) } else { "none" };
                        } else {
                            let name = format!("nobody{}._life._tcp.local.", k);
                            let rr = std::panic::catch_unwind(std::panic::AssertUnwindSafe(|| sd.unregister(&name)));
                            mark();
                            fname = "unregister";
                            res = res_name(&rr);
                            reply = if let Ok(Ok(rx)) = &rr { wait_any(rx) } else { "none" };
                        }
                    }
                    "sub" => {
                        if tr.chance(1, 2) {
                            let ty = format!("_t{}._tcp.local.", k);
                            let rr = std::panic::catch_unwind(std::panic::AssertUnwindSafe(|| sd.browse(&ty)));
                            fname = "browse";
                            res = res_name(&rr);
                            if let Ok(Ok(rx)) = rr {
                                held.push(("browse".into(), Held::Browse(rx), s0));
                            }
                        } else {
                            let h = format!("somehost{}.local.", k);
                            let rr = std::panic::catch_unwind(std::panic::AssertUnwindSafe(|| sd.resolve_hostname(&h, None)));
                            fname = "resolve_hostname";
                            res = res_name(&rr);
                            if let Ok(Ok(rx)) = rr {
                                held.push(("resolve_hostname".into(), Held::Host(rx), s0));
                            }
                        }
                        reply = "none";
                    }
                    "mon" => {
                        let rr = std::panic::catch_unwind(std::panic::AssertUnwindSafe(|| sd.monitor()));
                        fname = "monitor";
                        res = res_name(&rr);
                        if let Ok(Ok(rx)) = rr {
                            held.push(("monitor".into(), Held::Mon(rx), s0));
                        }
                        reply = "none";
                    }
                    "reg" => {
                        let rr = std::panic::catch_unwind(std::panic::AssertUnwindSafe(|| sd.register(svc(k))));
                        fname = "register";
                        res = res_name(&rr);
                        reply = "none";
                    }
                    _ => {
                        let rr = match tr.below(3) {
                            0 => std::panic::catch_unwind(std::panic::AssertUnwindSafe(|| sd.stop_browse("_never._tcp.local."))),
                            1 => std::panic::catch_unwind(std::panic::AssertUnwindSafe(|| sd.verify("nothing._never._tcp.local.".to_string(), Duration::from_secs(1)))),
                            _ => std::panic::catch_unwind(std::panic::AssertUnwindSafe(|| sd.set_ip_check_interval(5))),
                        };
                        fname = "fire";
                        res = res_name(&rr);
                        reply = "none";
                    }
                }
                if reply != "none" {
                    s2 = seq.fetch_add(1, Ordering::SeqCst);
                }
                let s1 = seq.fetch_add(1, Ordering::SeqCst);
                let t1 = t_start.elapsed().as_micros() as u64;
                let tcv = if tc.get() == 0 { t1 } else { tc.get() };
                log.push(json!({"e": "tcall", "thr": th, "fn": fname, "s0": s0, "s1": s1, "s2": s2, "res": res, "reply": reply, "t0": t0, "tc": tcv, "t1": t1}));
                if !spin {
                    std::thread::sleep(Duration::from_micros(tr.below(400)));
                }
            }
            // a client that keeps listening: every channel must close once the daemon is gone
            let deadline = Instant::now() + Duration::from_millis(8000);
            for (f, h, by) in &held {
                let (kinds, closed) = drain_held(h, deadline);
                log.push(json!({"e": "tchan", "thr": th, "fn": f, "events": kinds, "closed": closed, "by": by}));
            }
            let _ = tx.send((th, log));
        }));
    }
    drop(tx);
    let mut lines: Vec<Value> = Vec::new();
    let mut done = 0usize;
    let overall = Instant::now() + Duration::from_secs(60);
    while done < nthr {
        match rx.recv_timeout(overall.saturating_duration_since(Instant::now()).max(Duration::from_millis(1))) {
            Ok((_, l)) => {
                lines.extend(l);
                done += 1;
            }
            Err(_) => break,
        }
    }
    // the warm-up channels, read by the main thread
    let deadline = Instant::now() + Duration::from_millis(8000);
    let mut warm = Vec::new();
    if let Some(rx) = warm_browse {
        let (kinds, closed) = drain_held(&Held::Browse(rx), deadline);
        warm.push(json!({"fn": "browse", "events": kinds, "closed": closed}));
    }
    if let Some(rx) = warm_host {
        let (kinds, closed) = drain_held(&Held::Host(rx), deadline);
        warm.push(json!({"fn": "resolve_hostname", "events": kinds, "closed": closed}));
    }
    // the Shutdown reply and the closing of the channels precede the end of the daemon thread by a few instructions: the
    // thread gets up to six seconds of real time to end (a loaded machine can take it off the processor right there)
    let end_by = Instant::now() + Duration::from_millis(6000);
    while !world.is_dead(dd) && Instant::now() < end_by {
        std::thread::sleep(Duration::from_millis(2));
    }
    stop_clock.store(true, Ordering::Relaxed);
    let _ = clock.join();
    let dead = world.is_dead(dd);
    // goodbyes and announcements on the wire
    let eg = world.take_egress();
    let mut byes: std::collections::BTreeMap<String, u64> = Default::default();
    let mut anns: std::collections::BTreeSet<String> = Default::default();
    for e in &eg {
        if let Ok(m) = crate::wire::parse(&e.bytes) {
            if !m.is_response() {
                continue;
            }
            for rr in &m.answers {
                if rr.ty == crate::wire::T_SRV {
                    let k = rr.name.lower().unescaped();
                    if rr.ttl == 0 {
                        *byes.entry(k).or_default() += 1;
                    } else {
                        anns.insert(k);
                    }
                }
            }
        }
    }
    let (drained_at, dead_at) = world.exit_marks(dd);
    let ns = |x: Option<Instant>| x.map(|i| i.saturating_duration_since(t_start).as_micros() as i64).unwrap_or(-1);
    lines.sort_by_key(|l| l["s0"].as_u64().unwrap_or(u64::MAX));
    for l in lines {
        sim.log(l);
    }
    sim.log(json!({"e": "tfinal", "dead": dead, "threads": nthr, "finished": done, "warm": warm, "warm_fnk": warm_fnk,
        "byes": byes, "announced": anns.into_iter().collect::<Vec<_>>(), "drain_us": ns(world.exit_drain_begun(dd)), "drained_us": ns(drained_at), "dead_us": ns(dead_at)}));
    for h in handles {
        if h.is_finished() {
            let _ = h.join();
        }
    }
    sim.daemons[d].alive = !dead;
    sim.finish()
}
