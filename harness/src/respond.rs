//! Driver family `respond` (C06 C07 C09 C10 C18-where): registrations on
//! simulated topologies, then injected queries of every kind, re-registration,
//! unregistration and shutdown; policy W (the daemon is woken when it asks).

use crate::rng::Rng;
use crate::sim::*;
use crate::wire::{self, Msg, Name, Question, RData, RR};
use mdns_sd::ServiceInfo;
use serde_json::{json, Value};
use std::net::{IpAddr, Ipv6Addr, SocketAddr, SocketAddrV6};

#[derive(Clone, Debug)]
pub struct Svc {
    pub ty: String,      // "_http._tcp.local." or with subtype "_x._sub._http._tcp.local."
    pub inst: String,
    pub host: String,
    pub addrs: Vec<IpAddr>,
    pub port: u16,
    pub props: Vec<(String, String)>,
    pub probe: bool,
}

impl Svc {
    pub fn info(&self) -> ServiceInfo {
        let ips: Vec<IpAddr> = self.addrs.clone();
        let mut i = ServiceInfo::new(&self.ty, &self.inst, &self.host, &ips[..], self.port, &self.props[..]).expect("ServiceInfo::new");
        if !self.probe {
            i.set_requires_probe(false);
        }
        i
    }
    pub fn base_ty(&self) -> String {
        match self.ty.rsplit_once("._sub.") {
            Some((_, t)) => t.to_string(),
            None => self.ty.clone(),
        }
    }
    pub fn fullname(&self) -> String {
        self.info().get_fullname().to_string()
    }
}

pub fn v6(s: &str) -> IpAddr {
    IpAddr::V6(s.parse::<Ipv6Addr>().unwrap())
}

pub fn topology(r: &mut Rng) -> Vec<IfSpec> {
    let mut v = vec![];
    let kinds = r.below(5);
    let a1: Vec<(IpAddr, u8)> = match kinds {
        0 | 1 => vec![(v4(192, 168, 1, 10), 24)],
        2 => vec![(v4(192, 168, 1, 10), 24), (v6("fe80::1:10"), 64)],
        3 => vec![(v6("fe80::1:10"), 64)],
        _ => vec![(v4(192, 168, 1, 10), 24), (v4(10, 9, 0, 10), 16)],
    };
    v.push(IfSpec { name: "eth0".into(), index: 2, addrs: a1, up: true });
    if r.chance(1, 2) {
        let a2: Vec<(IpAddr, u8)> = if r.chance(1, 2) { vec![(v4(172, 16, 5, 10), 20)] } else { vec![(v4(172, 16, 5, 10), 20), (v6("fd00:5::10"), 64)] };
        v.push(IfSpec { name: "wlan0".into(), index: 3, addrs: a2, up: true });
    }
    v
}

fn svc_addrs(r: &mut Rng, ifs: &[IfSpec]) -> Vec<IpAddr> {
    // addresses on some of the links, sometimes one that is on no link
    let mut v = vec![];
    for i in ifs {
        for (a, _) in &i.addrs {
            if r.chance(3, 4) {
                v.push(match a {
                    IpAddr::V4(x) => { let o = x.octets(); v4(o[0], o[1], o[2], 40 + r.below(5) as u8) }
                    IpAddr::V6(x) => { let mut s = x.segments(); s[7] = 0x40 + r.below(5) as u16; IpAddr::V6(Ipv6Addr::from(s)) }
                });
            }
        }
    }
    if r.chance(1, 4) {
        v.push(v4(203, 0, 113, 7));
    }
    if v.is_empty() {
        let (a, _) = &ifs[0].addrs[0];
        v.push(*a);
    }
    v.sort();
    v.dedup();
    v
}

pub fn services(r: &mut Rng, ifs: &[IfSpec]) -> Vec<Svc> {
    let n = r.range(1, 3) as usize;
    let hosts = ["alpha.local.", "Beta.local.", "gamma.local."];
    let types = ["_http._tcp.local.", "_ipp._tcp.local.", "_printer._sub._http._tcp.local.", "_osc._udp.local."];
    let insts = ["web", "My Printer", "node-1", "Caf\u{e9}"];
    let shared_host = r.chance(1, 3);
    let h0 = *r.pick(&hosts);
    let mut out: Vec<Svc> = vec![];
    for k in 0..n {
        let host = if shared_host { h0 } else { hosts[(k + r.below(3) as usize) % 3] };
        let addrs = if shared_host && k > 0 { out[0 as usize].addrs.clone() } else { svc_addrs(r, ifs) };
        out.push(Svc {
            ty: r.pick(&types).to_string(),
            inst: format!("{}{}", r.pick(&insts), k),
            host: host.to_string(),
            addrs,
            port: 8000 + k as u16,
            props: if r.chance(1, 3) { vec![] } else { vec![("path".into(), format!("/{}", k)), ("v".into(), "1".into())] },
            probe: !r.chance(1, 6),
        });
    }
    out
}

fn mixcase(r: &mut Rng, s: &str) -> String {
    match r.below(3) {
        0 => s.to_string(),
        1 => s.to_uppercase(),
        _ => s.chars().enumerate().map(|(i, c)| if i % 2 == 0 { c.to_ascii_uppercase() } else { c.to_ascii_lowercase() }).collect(),
    }
}

/// The records a well-behaved peer would list as known answers for `s`.
fn known_records(s: &Svc) -> Vec<RR> {
    let full = Name::from_escaped(&s.fullname());
    let ty = Name::from_escaped(&s.base_ty());
    let host = Name::from_escaped(&s.host);
    let info = s.info();
    let mut v = vec![
        RR::new(ty, false, 4500, RData::Ptr(full.clone())),
        RR::new(full.clone(), true, 120, RData::Srv { prio: 0, weight: 0, port: s.port, target: host.clone() }),
        RR::new(full, true, 4500, RData::Txt(mdns_sd::verif::generate_txt(&info))),
    ];
    // the answer to the service-type enumeration query, and the subtype pointer
    v.push(RR::new(Name::from_escaped("_services._dns-sd._udp.local."), false, 4500, RData::Ptr(Name::from_escaped(&s.base_ty()))));
    if s.ty != s.base_ty() {
        v.push(RR::new(Name::from_escaped(&s.ty), false, 4500, RData::Ptr(Name::from_escaped(&s.fullname()))));
    }
    for a in &s.addrs {
        v.push(RR::new(host.clone(), true, 120, match a {
            IpAddr::V4(x) => RData::A(x.octets()),
            IpAddr::V6(x) => RData::Aaaa(x.octets()),
        }));
    }
    v
}

fn gen_query(r: &mut Rng, svcs: &[Svc]) -> Msg {
    let mut m = Msg::default();
    m.id = if r.chance(1, 2) { r.next() as u16 } else { 0 };
    let nq = if r.chance(3, 4) { 1 } else { r.range(2, 3) };
    for _ in 0..nq {
        let s = r.pick(svcs).clone();
        let (name, ty): (String, u16) = match r.below(12) {
            0 | 1 => (s.base_ty(), wire::T_PTR),
            2 => (s.ty.clone(), wire::T_PTR),
            3 => ("_services._dns-sd._udp.local.".into(), wire::T_PTR),
            4 => (mixcase(r, &s.fullname()), wire::T_SRV),
            5 => (mixcase(r, &s.fullname()), wire::T_TXT),
            6 => (mixcase(r, &s.fullname()), wire::T_ANY),
            7 => (mixcase(r, &s.host), wire::T_A),
            8 => (mixcase(r, &s.host), wire::T_AAAA),
            9 => (mixcase(r, &s.host), wire::T_ANY),
            10 => ("nobody._http._tcp.local.".into(), *r.pick(&[wire::T_SRV, wire::T_ANY, wire::T_PTR])),
            _ => ("_other._tcp.local.".into(), wire::T_PTR),
        };
        m.questions.push(Question { name: Name::from_escaped(&name), ty, class: if r.chance(1, 6) { 0x8001 } else { 1 } });
    }
    if r.chance(1, 2) {
        // known answers with TTLs on both sides of the half-TTL boundary
        for s in svcs {
            for mut rr in known_records(s) {
                if !r.chance(1, 3) {
                    continue;
                }
                let full = rr.ttl;
                rr.ttl = match r.below(8) {
                    0 => 0,
                    1 => 1,
                    2 => full / 2 - 1,
                    3 => full / 2,
                    4 => full / 2 + 1,
                    5 => full,
                    6 => 0x7fff_ffff,
                    _ => r.below(full as u64 + 1) as u32,
                };
                if r.chance(1, 8) {
                    // differs in rdata: must not suppress
                    if let RData::Srv { ref mut port, .. } = rr.rdata {
                        *port = port.wrapping_add(1);
                    }
                }
                m.answers.push(rr);
            }
        }
    }
    m
}

fn peer_src(r: &mut Rng, ifc: &IfSpec, want_v4: bool, legacy: bool) -> Option<SocketAddr> {
    let port = if legacy { 40000 + r.below(1000) as u16 } else { 5353 };
    let (a, _) = ifc.addrs.iter().find(|(a, _)| a.is_ipv4() == want_v4)?;
    Some(match a {
        IpAddr::V4(x) => { let o = x.octets(); sock4(o[0], o[1], o[2], 200, port) }
        IpAddr::V6(x) => { let mut s = x.segments(); s[7] = 0x200; SocketAddr::V6(SocketAddrV6::new(Ipv6Addr::from(s), port, 0, ifc.index)) }
    })
}

pub fn scenario(id: u64, seed: u64, thorough: bool) -> Vec<Value> {
    let mut r = Rng::new(seed.wrapping_mul(1000003).wrapping_add(id));
    let ifs = topology(&mut r);
    let svcs = services(&mut r, &ifs);
    let links: Vec<Vec<(usize, u32)>> = ifs.iter().map(|i| vec![(0usize, i.index)]).collect();
    // sometimes the second interface only shows up after the registrations ("interfaces appearing later")
    let late_if = ifs.len() > 1 && r.chance(1, 3);
    let first: Vec<IfSpec> = if late_if { ifs[..1].to_vec() } else { ifs.clone() };
    let mut s = Sim::new(json!({"id": id, "family": "respond", "late_if": late_if}), seed ^ id, vec![first.clone()], links);
    let d = s.spawn(0);
    s.monitor(d);
    s.kick(d);
    let mut t = 0u64;
    let mut registered: Vec<Svc> = vec![];
    // registrations, possibly staggered while others are probing
    for sv in &svcs {
        let mut info = sv.info();
        if late_if && r.chance(1, 2) {
            info = info.enable_addr_auto();
        }
        s.register(d, info);
        s.kick(d);
        registered.push(sv.clone());
        if r.chance(1, 2) {
            // somebody asks while the name is still being probed
            let q = gen_query(&mut r, &registered);
            let ifc = r.pick(&first).clone();
            let want_v4 = ifc.addrs.iter().any(|(a, _)| a.is_ipv4());
            if let Some(src) = peer_src(&mut r, &ifc, want_v4, false) {
                t += r.range(0, 700);
                s.run_until(t);
                s.deliver(d, ifc.index, src, &q, false);
                s.kick(d);
            }
        }
        if r.chance(1, 2) {
            t += r.range(0, 900);
            s.run_until(t);
        }
    }
    t += 2600;
    s.run_until(t);
    if late_if {
        s.set_ifs(0, ifs.clone());
        // the daemon looks at the interface table every five seconds; then it probes and announces
        t += 8200;
        s.run_until(t);
    }
    let steps = if thorough { 40 } else { 14 };
    for _ in 0..steps {
        t += r.range(20, 1500);
        s.run_until(t);
        match r.below(20) {
            0 if !registered.is_empty() => {
                // re-register with changed data (or the same data)
                let k = r.below(registered.len() as u64) as usize;
                let mut sv = registered[k].clone();
                match r.below(3) {
                    0 => sv.port += 100,
                    1 => sv.props.push(("x".into(), format!("{}", r.below(100)))),
                    _ => {}
                }
                registered[k] = sv.clone();
                s.register(d, sv.info());
                s.kick(d);
            }
            1 if !registered.is_empty() => {
                let k = r.below(registered.len() as u64) as usize;
                let sv = registered.remove(k);
                let name = mixcase(&mut r, &sv.fullname());
                s.unregister(d, &name);
                s.kick(d);
            }
            2 => {
                s.unregister(d, "ghost._http._tcp.local.");
                s.kick(d);
            }
            3 if registered.len() < svcs.len() => {
                let sv = svcs.iter().find(|x| !registered.iter().any(|y| y.inst == x.inst)).unwrap().clone();
                s.register(d, sv.info());
                s.kick(d);
                registered.push(sv);
            }
            _ => {
                let q = gen_query(&mut r, &svcs);
                let ifc = r.pick(&ifs).clone();
                let want_v4 = if r.chance(3, 4) { ifc.addrs.iter().any(|(a, _)| a.is_ipv4()) } else { !ifc.addrs.iter().any(|(a, _)| a.is_ipv6()) };
                let legacy = r.chance(1, 6);
                if let Some(src) = peer_src(&mut r, &ifc, want_v4, legacy) {
                    s.deliver(d, ifc.index, src, &q, r.chance(1, 2));
                    s.kick(d);
                }
            }
        }
    }
    // directed ending (every fourth scenario): a service that is announced is registered again with changed data and the
    // daemon is shut down while the new data is still being probed - the goodbye for what was announced is owed all the same
    if id % 4 == 1 && !registered.is_empty() {
        t += 2500;
        s.run_until(t);
        let mut sv = registered[0].clone();
        sv.props.push(("z".into(), "1".into()));
        registered[0] = sv.clone();
        s.register(d, sv.info());
        s.kick(d);
        t += 100 + (id % 5) * 120;
        s.run_until(t);
        s.shutdown(d);
        s.kick(d);
        t += 1500;
        s.run_until(t);
        return s.finish();
    }
    t += 3000;
    s.run_until(t);
    if r.chance(1, 2) {
        s.shutdown(d);
        s.kick(d);
    }
    s.finish()
}
