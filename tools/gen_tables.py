#!/usr/bin/env python3
"""Rewrites the tables of DESIGN.md sections 8.1 and 8.2 from known_findings.json."""
import json
import os
import re

ROOT = os.path.dirname(os.path.dirname(os.path.abspath(__file__)))
k = json.load(open(os.path.join(ROOT, "known_findings.json")))
p = os.path.join(ROOT, "DESIGN.md")
s = open(p).read()


def esc(x):
    return x.replace("|", "\\|").replace("\n", " ")


rows = ["| property | commit | what failed |", "|---|---|---|"]
for f in k["fixed"]:
    m = re.match(r"fixed: property=(C\d\d) (\w+) (.*)", f, re.S)
    rows.append("| %s | `%s` | %s |" % (m.group(1), m.group(2), esc(m.group(3))))
t1 = "\n".join(rows)
rows = ["| property | clause | discriminator | what fails, and why it is not repaired here |", "|---|---|---|---|"]
for f in k["findings"]:
    rows.append("| %s | `%s` | `%s` | %s |" % (f["property"], f["tag"], esc(json.dumps(f["match"], ensure_ascii=False))[:140], esc(f["what"])))
t2 = "\n".join(rows)


def replace_table(s, header, table, first="| property |"):
    i = s.index(header)
    j = s.index(first, i)
    e = j
    while s[e:e + 1] == "|":
        e = s.index("\n", e) + 1
    return s[:j] + table + "\n" + s[e:]


# section 10: one row per seeded change, from seeded/<id>/meta.json
import glob
rows = ["| id | change | caught by | clauses |", "|---|---|---|---|"]
for mp in sorted(glob.glob(os.path.join(ROOT, "seeded", "*", "meta.json"))):
    m = json.load(open(mp))
    tags = []
    for c in m.get("checks", {}).values():
        for l in c.get("lines", []):
            x = re.match(r"\s*clause (\S+)", l)
            if x and x.group(1) not in tags:
                tags.append(x.group(1))
    caught = ", ".join(m.get("detected_by", [])) or ("obsolete" if str(m.get("status", "")).startswith("obsolete") else "not caught")
    rows.append("| %s | %s | %s | %s |" % (m.get("id", os.path.basename(os.path.dirname(mp))), esc(m.get("summary", ""))[:420], caught, ", ".join(tags[:8])))
t3 = "\n".join(rows)
s = replace_table(s, "## 10. Sensitivity", t3, "| id |")
s = replace_table(s, "### 8.1 Repaired defects", t1)
s = replace_table(s, "### 8.2 Recorded findings", t2)
open(p, "w").write(s)
print(len(k["fixed"]), "fixed,", len(k["findings"]), "findings")
