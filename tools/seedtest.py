#!/usr/bin/env python3
"""Applies a seeded change to /repo, runs the given checks against it, undoes it straight afterwards and
records the outcome under /verif/seeded/<id>/ (patch.diff, demo.md, meta.json).
usage: tools/seedtest.py <id> <patch> <meta.json> <check> [<check> ...] [--tier quick|thorough]"""
import json
import os
import shutil
import subprocess
import sys
import time

ROOT = os.path.dirname(os.path.dirname(os.path.abspath(__file__)))


def sh(cmd, **kw):
    return subprocess.run(cmd, stdout=subprocess.PIPE, stderr=subprocess.STDOUT, text=True, **kw)


def main():
    args = [a for a in sys.argv[1:] if not a.startswith("--")]
    tier = "quick"
    if "--tier" in sys.argv:
        tier = sys.argv[sys.argv.index("--tier") + 1]
        args.remove(tier)
    sid, patch, meta_path = args[0], args[1], args[2]
    checks = args[3:]
    st = sh(["git", "-C", "/repo", "status", "--porcelain", "--untracked-files=no"]).stdout.strip()
    if st:
        print("refusing: /repo has local changes:\n" + st)
        return 2
    r = sh(["git", "-C", "/repo", "apply", "--check", patch])
    if r.returncode != 0:
        print("patch does not apply:\n" + r.stdout)
        return 2
    sh(["git", "-C", "/repo", "apply", patch])
    results = {}
    try:
        for c in checks:
            t = time.time()
            p = sh([os.path.join(ROOT, "check"), c, "--tier", tier], cwd=ROOT)
            viol = [l for l in p.stdout.splitlines() if l.startswith("VIOLATION") or l.startswith("  clause")]
            results[c] = {"rc": p.returncode, "tier": tier, "wall_s": round(time.time() - t, 1), "lines": viol[:8]}
            print(c, "rc=%d" % p.returncode, "%.0fs" % (time.time() - t), *(viol[:4]), sep="\n  ")
            if p.returncode == 2:
                print(p.stdout[-1500:])
    finally:
        sh(["git", "-C", "/repo", "checkout", "--", "."])
    # rebuild the harness on the clean tree so that nothing started by hand afterwards runs the mutant's binary
    sh(["cargo", "build", "--release", "--offline"], cwd=os.path.join(ROOT, "harness"))
    d = os.path.join(ROOT, "seeded", sid)
    os.makedirs(d, exist_ok=True)
    if os.path.abspath(patch) != os.path.abspath(os.path.join(d, "patch.diff")):
        shutil.copyfile(patch, os.path.join(d, "patch.diff"))
    meta = json.load(open(meta_path)) if os.path.exists(meta_path) else {}
    old = {}
    if os.path.exists(os.path.join(d, "meta.json")):
        old = json.load(open(os.path.join(d, "meta.json"))).get("checks", {})
    old.update(results)
    meta["id"] = sid
    meta["checks"] = old
    meta["detected"] = any(v["rc"] == 1 for v in old.values())
    meta["detected_by"] = sorted(k + ":" + v["tier"] for k, v in old.items() if v["rc"] == 1)
    with open(os.path.join(d, "meta.json"), "w") as f:
        json.dump(meta, f, indent=1)
    with open(os.path.join(d, "demo.md"), "w") as f:
        f.write("# %s\n\n**Change.** %s\n\n**Why it breaks the property.** %s\n\n**Demonstration.** %s\n" % (
            sid, meta.get("summary", ""), meta.get("why_it_breaks", ""), meta.get("demo", "")))
    return 0


if __name__ == "__main__":
    sys.exit(main())
